#!/bin/bash
# Replays of the recorded defects against /repo's working tree (overlay: nothing is written to /repo).
# usage: run.sh [substring]    prints one line per replay: PASS / FAIL
# fixed findings must PASS, findings of status "known" must FAIL (they reproduce the defect).
export GOFLAGS=-mod=mod GOPROXY=off GOSUMDB=off GOTOOLCHAIN=local
V=$(cd "$(dirname "$0")/.." && pwd)
REPO=${GOVC_REPO:-/repo}
S=$(mktemp -d /var/tmp/govc-findings-XXXXXX); trap 'rm -rf "$S"' EXIT
for f in "$V"/findings/f*_test.go; do
  b=$(basename "$f")
  [ -n "$1" ] && ! echo "$b" | grep -q "$1" && continue
  pkg=$(sed -n 's/^package \([a-z]*\).*/\1/p' "$f" | head -1)
  case "$pkg" in fsutil) dir=.;; fs) dir=copy;; types) dir=types;; util) dir=util;; *) dir=.;; esac
  echo "{\"Replace\":{\"$REPO/$dir/zz_govc_finding_test.go\":\"$f\"}}" > "$S/ov.json"
  if (cd "$REPO/$dir" && TMPDIR="$S" go test -overlay "$S/ov.json" -vet=off -count=1 -timeout 120s -run 'TestFinding' . > "$S/log" 2>&1); then echo "PASS $b"; else echo "FAIL $b $(grep -m1 -E '^\s+\S+_test.go:[0-9]+:' "$S/log" | cut -c1-160)"; fi
done
