package fsutil

// F38 (C05, C01): the disk writer builds a replacement under a
// temporary name (.tmp.NNN) and renames it over the final name. When the replacement is a hard
// link and the final name is ALREADY a link to the same inode, rename(2) succeeds without doing
// anything: the temporary name stays in the destination as an additional, never reported name of
// the inode. Trigger: destination holds a, b (hard link of a); the same source is received again
// with a Filter that rejects "a" and either DiffNone or Merge. These tests fail on the
// tree before the fix (the temporary name is now removed after the rename), pass after.

import (
	"bytes"
	"context"
	"os"
	"sync"
	"testing"

	"github.com/stretchr/testify/require"
	"github.com/tonistiigi/fsutil/types"
	"golang.org/x/sync/errgroup"
)

func TestFindingF38LeftoverTmp(t *testing.T) {
	requiresRoot(t)
	src, err := tmpDir(changeStream([]string{
		"ADD a file payload",
		"ADD b file >a",
	}))
	require.NoError(t, err)
	defer os.RemoveAll(src)
	dest := t.TempDir()

	run := func(opt ReceiveOpt) []string {
		var mu sync.Mutex
		var evs []string
		opt.ContentHasher = simpleSHA256Hasher
		opt.NotifyHashed = func(kind ChangeKind, p string, fi os.FileInfo, err error) error {
			mu.Lock()
			evs = append(evs, kind.String()+" "+p)
			mu.Unlock()
			return err
		}
		fs, err := NewFS(src)
		require.NoError(t, err)
		eg, ctx := errgroup.WithContext(context.Background())
		s1, s2 := sockPairProto(ctx)
		eg.Go(func() error {
			defer s1.(*fakeConnProto).closeSend()
			return Send(ctx, s1, fs, nil)
		})
		eg.Go(func() error { return Receive(ctx, s2, dest, opt) })
		require.NoError(t, eg.Wait())
		return evs
	}
	t.Log(run(ReceiveOpt{}))
	b := &bytes.Buffer{}
	require.NoError(t, Walk(context.Background(), dest, nil, bufWalk(b)))
	t.Log("\n" + b.String())

	evs := run(ReceiveOpt{Differ: DiffNone, Filter: func(p string, s *types.Stat) bool { return p != "a" }})
	t.Log(evs)
	b = &bytes.Buffer{}
	require.NoError(t, Walk(context.Background(), dest, nil, bufWalk(b)))
	t.Log("\n" + b.String())
	require.Equal(t, "file a\nfile b >a\n", b.String())
}

func TestFindingF38LeftoverTmpMerge(t *testing.T) {
	requiresRoot(t)
	src, err := tmpDir(changeStream([]string{
		"ADD a file payload",
		"ADD b file >a",
	}))
	require.NoError(t, err)
	defer os.RemoveAll(src)
	dest := t.TempDir()
	run := func(opt ReceiveOpt) {
		fs, err := NewFS(src)
		require.NoError(t, err)
		eg, ctx := errgroup.WithContext(context.Background())
		s1, s2 := sockPairProto(ctx)
		eg.Go(func() error {
			defer s1.(*fakeConnProto).closeSend()
			return Send(ctx, s1, fs, nil)
		})
		eg.Go(func() error { return Receive(ctx, s2, dest, opt) })
		require.NoError(t, eg.Wait())
	}
	run(ReceiveOpt{})
	run(ReceiveOpt{Merge: true, Filter: func(p string, s *types.Stat) bool { return p != "a" }})
	b := &bytes.Buffer{}
	require.NoError(t, Walk(context.Background(), dest, nil, bufWalk(b)))
	require.Equal(t, "file a\nfile b >a\n", b.String())
}
