package fsutil

// F31 (C18) KNOWN FINDING, not repaired. (a) The locations FollowLinks returns are fed to the
// pattern matcher as include PATTERNS, unescaped: a link target whose name contains a pattern
// character ("a[1]") selects other names ("a1") and not itself, one starting with "!" becomes an
// exclusion - the requested path does not resolve in the transferred tree. (b) A wildcard in a
// middle component of a followed path is kept as a pattern and the links it matches are not
// followed ("d*/l1" with dir/l1 -> /baz does not bring baz). These tests FAIL on the current tree.

import (
	"bytes"
	"context"
	"testing"

	"github.com/containerd/continuity/fs/fstest"
	"github.com/stretchr/testify/require"
)

func f31Walk(t *testing.T, d string, follow ...string) string {
	b := &bytes.Buffer{}
	require.NoError(t, Walk(context.Background(), d, &FilterOpt{FollowPaths: follow}, bufWalk(b)))
	return b.String()
}

// S1: link target whose name contains a pattern metacharacter
func TestFindingF31MetaCharTarget(t *testing.T) {
	d := t.TempDir()
	require.NoError(t, fstest.Apply(
		fstest.CreateFile("a[1]", []byte("wanted"), 0600),
		fstest.CreateFile("a1", []byte("decoy"), 0600),
		fstest.Symlink("/a[1]", "l"),
	).Apply(d))
	require.Equal(t, "file a[1]\nsymlink:/a[1] l\n", f31Walk(t, d, "l"))
}

// S2: link target whose name starts with '!' becomes an exclusion pattern
func TestFindingF31BangTarget(t *testing.T) {
	d := t.TempDir()
	require.NoError(t, fstest.Apply(
		fstest.CreateFile("!x", []byte("wanted"), 0600),
		fstest.Symlink("/!x", "l"),
	).Apply(d))
	require.Equal(t, "file !x\nsymlink:/!x l\n", f31Walk(t, d, "l"))
}

// S3: wildcard in a middle component: the matched link is not followed
func TestFindingF31MiddleWildcard(t *testing.T) {
	d := t.TempDir()
	require.NoError(t, fstest.Apply(
		fstest.CreateFile("baz", []byte("wanted"), 0600),
		fstest.CreateDir("dir", 0700),
		fstest.Symlink("/baz", "dir/l1"),
	).Apply(d))
	tmpfs, err := NewFS(d)
	require.NoError(t, err)
	out, err := FollowLinks(tmpfs, []string{"d*/l1"})
	require.NoError(t, err)
	require.Contains(t, out, "baz")
	require.Equal(t, "file baz\ndir dir\nsymlink:/baz dir/l1\n", f31Walk(t, d, "d*/l1"))
}
