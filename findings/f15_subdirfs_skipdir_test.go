package fsutil

// F15 (C10, C09): a composite view of named sub-roots under a filter whose
// pruning shortcut answers SkipDir for a whole sub-root. subDirFS.Walk returned
// that SkipDir to its caller as an error instead of skipping the sub-root, so
// the filtered walk fails with "skip this directory" where the unpruned
// evaluation (an equivalent pattern list that cannot be pruned) reports the
// entries of the other sub-root. Fails before the fix, passes after.

import (
	"context"
	gofs "io/fs"
	"os"
	"path/filepath"
	"reflect"
	"testing"

	"github.com/tonistiigi/fsutil/types"
)

func TestFindingF15SubDirFSSkipDir(t *testing.T) {
	mk := func(files ...string) FS {
		d := t.TempDir()
		for _, f := range files {
			os.MkdirAll(filepath.Dir(filepath.Join(d, f)), 0755)
			os.WriteFile(filepath.Join(d, f), []byte("x"), 0644)
		}
		fs, err := NewFS(d)
		if err != nil {
			t.Fatal(err)
		}
		return fs
	}
	sub, err := SubDirFS([]Dir{
		{Stat: &types.Stat{Path: "1", Mode: uint32(os.ModeDir | 0755)}, FS: mk("foo")},
		{Stat: &types.Stat{Path: "2", Mode: uint32(os.ModeDir | 0755)}, FS: mk("bar")},
	})
	if err != nil {
		t.Fatal(err)
	}
	walk := func(opt *FilterOpt) ([]string, error) {
		f, err := NewFilterFS(sub, opt)
		if err != nil {
			return nil, err
		}
		var got []string
		err = f.Walk(context.Background(), "", func(p string, e gofs.DirEntry, err error) error {
			if err != nil {
				return err
			}
			got = append(got, p)
			return nil
		})
		return got, err
	}
	want, err := walk(&FilterOpt{IncludePatterns: []string{"*", "!1"}}) // same selection, not prunable
	if err != nil {
		t.Fatal(err)
	}
	got, err := walk(&FilterOpt{IncludePatterns: []string{"2"}})
	if err != nil {
		t.Fatalf("filtered walk over the composite view failed: %v (the pruning shortcut leaked out)", err)
	}
	if !reflect.DeepEqual(got, want) {
		t.Fatalf("got %v want %v", got, want)
	}
}
