package fsutil

// F35 (C01): the receiver accepts a destination path that is a symlink to a directory (its walk of
// the destination resolves it), but DiskWriter.Wait restored the directory times with
// filepath.WalkDir(dest), which lstat's its root and does not enter a symlink: every directory the
// transfer created kept the time of its creation instead of the source's mtime, with both ends
// reporting success. Fails before the fix, passes after.

import (
	"context"
	"os"
	"path/filepath"
	"testing"
	"time"

	"github.com/stretchr/testify/require"
	"golang.org/x/sync/errgroup"
)

func f35Sync(t *testing.T, src, dest string, opt ReceiveOpt) {
	fs, err := NewFS(src)
	require.NoError(t, err)
	eg, ctx := errgroup.WithContext(context.Background())
	s1, s2 := sockPairProto(ctx)
	eg.Go(func() error {
		defer s1.(*fakeConnProto).closeSend()
		return Send(ctx, s1, fs, nil)
	})
	eg.Go(func() error {
		return Receive(ctx, s2, dest, opt)
	})
	require.NoError(t, eg.Wait())
}

func TestFindingF35DestinationGivenAsSymlink(t *testing.T) {
	src := t.TempDir()
	base := t.TempDir()
	real := filepath.Join(base, "real")
	require.NoError(t, os.Mkdir(real, 0755))
	link := filepath.Join(base, "link")
	require.NoError(t, os.Symlink("real", link))

	require.NoError(t, os.MkdirAll(filepath.Join(src, "d"), 0755))
	require.NoError(t, os.WriteFile(filepath.Join(src, "d", "f"), []byte("x"), 0644))
	tm := time.Unix(1000000000, 123456789)
	require.NoError(t, os.Chtimes(filepath.Join(src, "d"), tm, tm))

	f35Sync(t, src, link, ReceiveOpt{})
	fi, err := os.Lstat(filepath.Join(real, "d"))
	require.NoError(t, err)
	require.Equal(t, tm.UnixNano(), fi.ModTime().UnixNano())
	// and a plain directory destination keeps working
	dest := t.TempDir()
	f35Sync(t, src, dest, ReceiveOpt{})
	fi, err = os.Lstat(filepath.Join(dest, "d"))
	require.NoError(t, err)
	require.Equal(t, tm.UnixNano(), fi.ModTime().UnixNano())
}
