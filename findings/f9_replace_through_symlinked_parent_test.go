package fs

import (
	"context"
	"os"
	"path/filepath"
	"testing"
)

// F9 (C14): with include patterns and always-replace, the existing target is
// removed before the (deferred) parent directories have been checked; when the
// parent is a symlink in the destination, RemoveAll deletes a file outside the
// destination root through it and only then the copy fails.
func TestFindingF9ReplaceThroughSymlinkedParent(t *testing.T) {
	base := t.TempDir()
	src := filepath.Join(base, "src")
	dst := filepath.Join(base, "dst")
	outside := filepath.Join(base, "outside")
	for _, d := range []string{filepath.Join(src, "sub"), dst, outside} {
		if err := os.MkdirAll(d, 0755); err != nil {
			t.Fatal(err)
		}
	}
	os.WriteFile(filepath.Join(src, "sub", "file"), []byte("new"), 0644)
	os.WriteFile(filepath.Join(outside, "file"), []byte("precious"), 0644)
	if err := os.Symlink(outside, filepath.Join(dst, "sub")); err != nil {
		t.Fatal(err)
	}
	err := Copy(context.Background(), src, ".", dst, "/", WithCopyInfo(CopyInfo{
		CopyDirContents:                true,
		IncludePatterns:                []string{"sub/file"},
		AlwaysReplaceExistingDestPaths: true,
	}))
	t.Logf("Copy returned: %v", err)
	dt, rerr := os.ReadFile(filepath.Join(outside, "file"))
	if rerr != nil || string(dt) != "precious" {
		t.Errorf("file outside the destination root was touched: content=%q err=%v", dt, rerr)
	}
}

// F10 (C14): a source path ending in ".." makes the destination name ".." and
// the tree is written into the parent of the destination root.
func TestFindingF10DotDotSourceEscapesDst(t *testing.T) {
	base := t.TempDir()
	src := filepath.Join(base, "src")
	dst := filepath.Join(base, "x", "dst")
	os.MkdirAll(filepath.Join(src, "sub"), 0755)
	os.MkdirAll(dst, 0755)
	os.WriteFile(filepath.Join(src, "marker"), []byte("m"), 0644)
	err := Copy(context.Background(), src, "sub/..", dst, "/")
	t.Logf("Copy returned: %v", err)
	if _, serr := os.Lstat(filepath.Join(base, "x", "marker")); serr == nil {
		t.Errorf("copy wrote %s, outside the destination root %s", filepath.Join(base, "x", "marker"), dst)
	}
}
