package fsutil

// F20 (C06, C01) - KNOWN FINDING, not repaired: sendFile ignores an error of
// FS.Open and answers the request with the empty terminator; the receiver stores
// an empty file although the STAT announced a size, and both ends return success.

import (
	"context"
	"io"
	"os"
	"path/filepath"
	"testing"

	"golang.org/x/sync/errgroup"
)

type f20FS struct{ FS }

func (f f20FS) Open(p string) (io.ReadCloser, error) {
	if p == "secret" {
		return nil, os.ErrPermission
	}
	return f.FS.Open(p)
}

func TestFindingF20OpenErrorSwallowed(t *testing.T) {
	src := t.TempDir()
	os.WriteFile(filepath.Join(src, "secret"), []byte("payload"), 0600)
	base, err := NewFS(src)
	if err != nil {
		t.Fatal(err)
	}
	dest := t.TempDir()
	eg, ctx := errgroup.WithContext(context.Background())
	s1, s2 := sockPairProto(ctx)
	eg.Go(func() error {
		defer s1.(*fakeConnProto).closeSend()
		return Send(ctx, s1, f20FS{base}, nil)
	})
	eg.Go(func() error { return Receive(ctx, s2, dest, ReceiveOpt{}) })
	err = eg.Wait()
	dt, _ := os.ReadFile(filepath.Join(dest, "secret"))
	if err == nil && string(dt) != "payload" {
		t.Fatalf("both ends succeeded but dest/secret holds %q, the source %q", dt, "payload")
	}
}
