package fsutil

// F36 (C01) KNOWN FINDING, by design, not repaired. With the default (metadata) differ an existing
// destination file whose size, mtime, mode and owner equal the source's is taken to be unchanged
// even when its bytes differ (the rsync quick check): the transfer succeeds and the destination
// keeps the old bytes, although the property promises the source's bytes "for every pre-existing
// destination content". Content comparison (DiffContent) is not implemented for receives (it
// opens both paths relative to the working directory and fails). This test FAILS on the current
// tree.

import (
	"context"
	"os"
	"path/filepath"
	"testing"
	"time"

	"github.com/stretchr/testify/require"
	"golang.org/x/sync/errgroup"
)

func TestFindingF36SameSizeAndMtimeDifferentBytes(t *testing.T) {
	src := t.TempDir()
	dest := t.TempDir()
	tm := time.Unix(1000000000, 5)
	require.NoError(t, os.WriteFile(filepath.Join(src, "f"), []byte("new!"), 0644))
	require.NoError(t, os.WriteFile(filepath.Join(dest, "f"), []byte("old!"), 0644))
	require.NoError(t, os.Chtimes(filepath.Join(src, "f"), tm, tm))
	require.NoError(t, os.Chtimes(filepath.Join(dest, "f"), tm, tm))
	fs, err := NewFS(src)
	require.NoError(t, err)
	eg, ctx := errgroup.WithContext(context.Background())
	s1, s2 := sockPairProto(ctx)
	eg.Go(func() error {
		defer s1.(*fakeConnProto).closeSend()
		return Send(ctx, s1, fs, nil)
	})
	eg.Go(func() error {
		return Receive(ctx, s2, dest, ReceiveOpt{})
	})
	require.NoError(t, eg.Wait())
	dt, err := os.ReadFile(filepath.Join(dest, "f"))
	require.NoError(t, err)
	require.Equal(t, "new!", string(dt))
}
