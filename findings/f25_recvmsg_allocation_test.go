package util

// F25 (C20): RecvMsg allocated make([]byte, length) for whatever the 4-byte length prefix of a
// frame announced, before a single payload byte had arrived: four bytes from a peer made the
// receiver reserve up to 4 GiB ("decoding arbitrary bytes ... never ... over-allocates"). The
// payload of a frame larger than the pooled buffer is now accumulated as it arrives. Fails before
// the fix, passes after. The second test pins what must not change: frames larger than the pooled
// buffer still round-trip, and a stream cut inside such a frame is an unexpected EOF.

import (
	"bytes"
	"context"
	"io"
	"runtime"
	"testing"

	"github.com/tonistiigi/fsutil/types"
)

func TestFindingF25LengthPrefixDoesNotSizeAnAllocation(t *testing.T) {
	// header: 0x20000000 = 512 MiB, then the stream ends
	in := bytes.NewReader([]byte{0x20, 0x00, 0x00, 0x00, 1, 2, 3})
	s := NewProtoStream(context.Background(), in, io.Discard)
	var before, after runtime.MemStats
	runtime.GC()
	runtime.ReadMemStats(&before)
	var p types.Packet
	err := s.RecvMsg(&p)
	runtime.ReadMemStats(&after)
	if err == nil {
		t.Fatal("a frame cut after 3 of 512Mi bytes was accepted")
	}
	if d := after.TotalAlloc - before.TotalAlloc; d > 8<<20 {
		t.Fatalf("receiving 7 bytes allocated %d bytes", d)
	}
	if err != io.ErrUnexpectedEOF {
		t.Fatalf("cut frame: %v, want unexpected EOF", err)
	}
}

func TestFindingF25LargeFramesStillRoundTrip(t *testing.T) {
	var wire bytes.Buffer
	s := NewProtoStream(context.Background(), &wire, &wire)
	data := make([]byte, 100000) // larger than the 32KiB pooled buffer
	for i := range data {
		data[i] = byte(i * 7)
	}
	if err := s.SendMsg(&types.Packet{Type: types.PACKET_DATA, ID: 5, Data: data}); err != nil {
		t.Fatal(err)
	}
	if err := s.SendMsg(&types.Packet{Type: types.PACKET_FIN}); err != nil {
		t.Fatal(err)
	}
	var p types.Packet
	if err := s.RecvMsg(&p); err != nil {
		t.Fatal(err)
	}
	if p.Type != types.PACKET_DATA || p.ID != 5 || !bytes.Equal(p.Data, data) {
		t.Fatal("large frame did not round-trip")
	}
	var q types.Packet
	if err := s.RecvMsg(&q); err != nil || q.Type != types.PACKET_FIN {
		t.Fatalf("frame after the large one: %v %v", q.Type, err)
	}
	if err := s.RecvMsg(&q); err != io.EOF {
		t.Fatalf("end of stream: %v, want EOF", err)
	}
}
