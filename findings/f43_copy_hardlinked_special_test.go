package fs

// F43 (C13): "files that share an inode in the source share one in the copy" - the copier looks up
// the hard-link table only for REGULAR files ((fi.Mode() & os.ModeType) == 0). Two names of one
// fifo (mkfifo p1; ln p1 p2), device node or symlink inode are copied as two unrelated inodes,
// where cp -a keeps them one. The regular-file pair in the same tree is the control.
// Fails on the unchanged code (known finding, not repaired).

import (
	"context"
	"os"
	"path/filepath"
	"syscall"
	"testing"

	"golang.org/x/sys/unix"
)

func TestFindingF43CopyHardlinkedFifo(t *testing.T) {
	src, dst := t.TempDir(), t.TempDir()
	if err := os.WriteFile(filepath.Join(src, "f1"), []byte("data"), 0644); err != nil {
		t.Fatal(err)
	}
	if err := os.Link(filepath.Join(src, "f1"), filepath.Join(src, "f2")); err != nil {
		t.Fatal(err)
	}
	if err := unix.Mkfifo(filepath.Join(src, "p1"), 0644); err != nil {
		t.Fatal(err)
	}
	if err := os.Link(filepath.Join(src, "p1"), filepath.Join(src, "p2")); err != nil {
		t.Fatal(err)
	}
	if err := Copy(context.Background(), src, ".", dst, "."); err != nil {
		t.Fatal(err)
	}
	ino := func(n string) uint64 {
		fi, err := os.Lstat(filepath.Join(dst, n))
		if err != nil {
			t.Fatal(err)
		}
		return fi.Sys().(*syscall.Stat_t).Ino
	}
	if ino("f1") != ino("f2") {
		t.Fatalf("control: the regular-file pair is not one inode in the copy")
	}
	if ino("p1") != ino("p2") {
		t.Fatalf("the two names of the fifo are one inode in the source, two in the copy")
	}
}
