package fsutil

import (
	"os"
	"testing"

	"github.com/tonistiigi/fsutil/types"
)

// F2 (C12, C03): Validator must reject "." and "..".
func TestFindingF2ValidatorDotDot(t *testing.T) {
	for _, p := range []string{"..", "."} {
		v := &Validator{}
		st := &types.Stat{Path: p, Mode: uint32(os.ModeDir | 0755)}
		if err := v.HandleChange(ChangeKindAdd, p, &StatInfo{st}, nil); err == nil {
			t.Errorf("validator accepted %q", p)
		}
	}
	v := &Validator{}
	st := &types.Stat{Path: "-", Mode: 0644}
	if err := v.HandleChange(ChangeKindAdd, "-", &StatInfo{st}, nil); err != nil {
		t.Fatal(err)
	}
	st = &types.Stat{Path: "..", Mode: uint32(os.ModeDir | 0755)}
	if err := v.HandleChange(ChangeKindAdd, "..", &StatInfo{st}, nil); err == nil {
		t.Errorf("validator accepted %q after %q", "..", "-")
	}
}
