package fsutil

// F28 (C11) KNOWN FINDING, not repaired. A map function that answers MapResultExclude for a
// directory drops the directory entry but not its contents: the filtered walk then reports
// "foo/bar" without "foo", the sender emits a stream that is not parent-closed and the receiver
// rejects it ("changes out of order") - "for every filter configuration, what the sender emits is
// a valid stream". This test FAILS on the current tree (it reproduces the defect).

import (
	"bytes"
	"context"
	"os"
	"testing"

	"github.com/stretchr/testify/assert"
	"github.com/stretchr/testify/require"
	"github.com/tonistiigi/fsutil/types"
	"golang.org/x/sync/errgroup"
)

func f28Transfer(t *testing.T, f FS, opt ReceiveOpt) (string, error) {
	dest := t.TempDir()
	eg, ctx := errgroup.WithContext(context.Background())
	s1, s2 := sockPairProto(ctx)
	eg.Go(func() error {
		defer s1.(*fakeConnProto).closeSend()
		return Send(ctx, s1, f, nil)
	})
	if opt.Filter == nil {
		opt.Filter = func(p string, s *types.Stat) bool {
			s.Uid = uint32(os.Getuid())
			s.Gid = uint32(os.Getgid())
			return true
		}
	}
	eg.Go(func() error {
		return Receive(ctx, s2, dest, opt)
	})
	return dest, eg.Wait()
}

func TestFindingF28MapExcludesDirKeepsChildren(t *testing.T) {
	d, err := tmpDir(changeStream([]string{
		"ADD foo dir",
		"ADD foo/bar file data1",
	}))
	require.NoError(t, err)
	defer os.RemoveAll(d)
	base, err := NewFS(d)
	require.NoError(t, err)
	f, err := NewFilterFS(base, &FilterOpt{Map: func(p string, s *types.Stat) MapResult {
		if p == "foo" {
			return MapResultExclude
		}
		return MapResultKeep
	}})
	require.NoError(t, err)
	b := &bytes.Buffer{}
	require.NoError(t, f.Walk(context.Background(), "", bufWalkDir(b)))
	t.Logf("walk:\n%s", b.String())
	_, err = f28Transfer(t, f, ReceiveOpt{})
	assert.NoError(t, err)
}

