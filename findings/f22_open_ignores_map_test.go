package fsutil

// F22 (C11) - KNOWN FINDING, not repaired: a path hidden by the map function can
// be opened through the same filtered view.

import (
	"context"
	gofs "io/fs"
	"os"
	"path/filepath"
	"testing"

	"github.com/tonistiigi/fsutil/types"
)

func TestFindingF22OpenIgnoresMap(t *testing.T) {
	d := t.TempDir()
	os.WriteFile(filepath.Join(d, "public"), []byte("1"), 0644)
	os.WriteFile(filepath.Join(d, "secret"), []byte("2"), 0644)
	fs, _ := NewFS(d)
	f, err := NewFilterFS(fs, &FilterOpt{Map: func(p string, s *types.Stat) MapResult {
		if p == "secret" {
			return MapResultExclude
		}
		return MapResultKeep
	}})
	if err != nil {
		t.Fatal(err)
	}
	seen := map[string]bool{}
	f.Walk(context.Background(), "", func(p string, e gofs.DirEntry, err error) error { seen[p] = true; return err })
	if seen["secret"] {
		t.Fatal("walk reports secret")
	}
	if rc, err := f.Open("secret"); err == nil {
		rc.Close()
		t.Fatal("secret is hidden from the walk by the map function but can be opened through the same view")
	}
}
