package fsutil

// F14 (C05): two directories deleted back to back. In the delete arm of the
// merge loop the "already removed directory" prefix is only CLEARED, not set to
// the new directory, when a deleted directory is met while the prefix still names
// the previous one. The first child of the second directory is then reported as
// a delete of its own (after its parent was already removed): deletes are no
// longer reported for top-most removed paths only. Fails before the fix.

import (
	"context"
	"os"
	"reflect"
	"testing"

	"github.com/tonistiigi/fsutil/types"
)

func f14Walker(entries [][2]string) walkerFn {
	return func(ctx context.Context, pathC chan<- *currentPath) error {
		for _, e := range entries {
			m := uint32(0644)
			if e[1] == "dir" {
				m = uint32(os.ModeDir | 0755)
			}
			select {
			case pathC <- &currentPath{path: e[0], stat: &types.Stat{Path: e[0], Mode: m}}:
			case <-ctx.Done():
				return ctx.Err()
			}
		}
		return nil
	}
}

func TestFindingF14SpuriousDelete(t *testing.T) {
	old := [][2]string{{"a", "dir"}, {"a/x", "file"}, {"b", "dir"}, {"b/y", "file"}, {"c", "file"}}
	neu := [][2]string{{"c", "file"}}
	var got []string
	err := doubleWalkDiff(context.Background(), func(k ChangeKind, p string, fi os.FileInfo, err error) error {
		got = append(got, k.String()+" "+p)
		return nil
	}, f14Walker(old), f14Walker(neu), nil, DiffMetadata)
	if err != nil {
		t.Fatal(err)
	}
	want := []string{"delete a", "delete b"}
	if !reflect.DeepEqual(got, want) {
		t.Fatalf("got %v, want %v (a delete below an already deleted directory was reported)", got, want)
	}
}
