package util

import (
	"bytes"
	"context"
	"testing"

	"github.com/tonistiigi/fsutil/types"
)

// F11 (C20): protoStream.SendMsg asserts its argument to an interface with
// MarshalTo([]byte) and Size(); *types.Packet has Size() but no MarshalTo (lost
// in the move to the vtproto codec), so sending any packet through the
// length-prefixed byte stream panics. A stream written with SendMsg must read
// back identical with RecvMsg.
func TestFindingF11ProtoStreamRoundTrip(t *testing.T) {
	var buf bytes.Buffer
	s := NewProtoStream(context.Background(), &buf, &buf)
	in := []*types.Packet{
		{Type: types.PACKET_STAT, Stat: &types.Stat{Path: "a/b", Mode: 0644, Size: 3}},
		{Type: types.PACKET_DATA, ID: 7, Data: []byte("xyz")},
		{}, // empty packet: zero-length frame
		{Type: types.PACKET_FIN},
	}
	func() {
		defer func() {
			if r := recover(); r != nil {
				t.Fatalf("SendMsg panicked: %v", r)
			}
		}()
		for _, p := range in {
			if err := s.SendMsg(p); err != nil {
				t.Fatal(err)
			}
		}
	}()
	for i, want := range in {
		var got types.Packet
		if err := s.RecvMsg(&got); err != nil {
			t.Fatalf("packet %d: %v", i, err)
		}
		if !got.EqualVT(want) {
			t.Errorf("packet %d: got %v want %v", i, &got, want)
		}
	}
}
