package fsutil

// F17 (C01): rewriteMetadata applied the xattrs first and the owner afterwards.
// On Linux any chown of a regular file clears its file capabilities, i.e. removes
// the security.capability xattr that was just written: a source file with file
// capabilities (setcap cap_net_raw+ep ...) arrives without them while both ends
// report success - the xattrs of a regular file created by the transfer differ
// from the source. Needs root and a filesystem with security xattrs. Fails
// before the fix (owner first, then xattrs), passes after.

import (
	"bytes"
	"context"
	"os"
	"path/filepath"
	"testing"

	"github.com/containerd/continuity/sysx"
	"golang.org/x/sync/errgroup"
)

func TestFindingF17CapabilityXattr(t *testing.T) {
	if os.Getuid() != 0 {
		t.Skip("needs root")
	}
	src := t.TempDir()
	f := filepath.Join(src, "tool")
	if err := os.WriteFile(f, []byte("#!/bin/true\n"), 0755); err != nil {
		t.Fatal(err)
	}
	// VFS_CAP_REVISION_2, cap_net_raw in permitted, effective bit set
	capv := []byte{0x01, 0x00, 0x00, 0x02, 0x00, 0x20, 0x00, 0x00, 0x00, 0x00, 0x00, 0x00, 0x00, 0x00, 0x00, 0x00, 0x00, 0x00, 0x00, 0x00}
	if err := sysx.LSetxattr(f, "security.capability", capv, 0); err != nil {
		t.Skipf("cannot set security.capability here: %v", err)
	}
	fs, err := NewFS(src)
	if err != nil {
		t.Fatal(err)
	}
	dest := t.TempDir()
	eg, ctx := errgroup.WithContext(context.Background())
	s1, s2 := sockPairProto(ctx)
	eg.Go(func() error {
		defer s1.(*fakeConnProto).closeSend()
		return Send(ctx, s1, fs, nil)
	})
	eg.Go(func() error { return Receive(ctx, s2, dest, ReceiveOpt{}) })
	if err := eg.Wait(); err != nil {
		t.Fatal(err)
	}
	got, err := sysx.LGetxattr(filepath.Join(dest, "tool"), "security.capability")
	if err != nil {
		t.Fatalf("dest/tool has no security.capability xattr (%v): the owner step after the xattrs removed it", err)
	}
	if !bytes.Equal(got, capv) {
		t.Fatalf("security.capability differs: %x vs %x", got, capv)
	}
}
