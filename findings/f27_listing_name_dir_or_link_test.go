package fsutil

// F27 (C19) KNOWN FINDING, not repaired. A metadata-only receive skips the entry named like its
// listing file (".fsutil-metadata") before the validators see it. A source that contains a
// DIRECTORY of that name makes the transfer fail ("changes out of order": the children arrive
// without their parent), and so does a source with a hard link to a FILE of that name ("invalid
// link ... to unknown path": the skipped entry was never registered). The property quantifies
// over "sources that themselves contain an entry with the listing file's name". These tests FAIL
// on the current tree (they reproduce the defect).

import (
	"context"
	"os"
	"path/filepath"
	"testing"

	"github.com/stretchr/testify/require"
	"github.com/tonistiigi/fsutil/types"
	"golang.org/x/sync/errgroup"
)

func f27Recv(t *testing.T, d, dest string, merge bool, sel FilterFunc) error {
	fs, err := NewFS(d)
	require.NoError(t, err)
	eg, ctx := errgroup.WithContext(context.Background())
	s1, s2 := sockPairProto(ctx)
	eg.Go(func() error {
		defer s1.(*fakeConnProto).closeSend()
		return Send(ctx, s1, fs, nil)
	})
	eg.Go(func() error {
		return Receive(ctx, s2, dest, ReceiveOpt{Merge: merge, MetadataOnly: sel})
	})
	return eg.Wait()
}

func TestFindingF27DirNamedLikeListing(t *testing.T) {
	d, err := tmpDir(changeStream([]string{
		"ADD .fsutil-metadata dir",
		"ADD .fsutil-metadata/x file data1",
		"ADD foo file data2",
	}))
	require.NoError(t, err)
	defer os.RemoveAll(d)
	dest := t.TempDir()
	err = f27Recv(t, d, dest, false, func(p string, s *types.Stat) bool { return p == "foo" })
	t.Logf("err=%v", err)
	require.NoError(t, err)
}

func TestFindingF27HardlinkToListingName(t *testing.T) {
	d, err := tmpDir(changeStream([]string{
		"ADD .fsutil-metadata file data1",
		"ADD foo file data2",
	}))
	require.NoError(t, err)
	defer os.RemoveAll(d)
	require.NoError(t, os.Link(filepath.Join(d, ".fsutil-metadata"), filepath.Join(d, "zlink")))
	dest := t.TempDir()
	err = f27Recv(t, d, dest, false, func(p string, s *types.Stat) bool { return p == "foo" })
	t.Logf("err=%v", err)
	require.NoError(t, err)
}

