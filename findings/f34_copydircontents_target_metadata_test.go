package fs

// F34 (C13) KNOWN FINDING, not repaired. Copying a directory in directory-contents mode into a
// target that does not exist yet creates the target with MkdirAll (default or requested octal
// mode, owner and time options) and then treats it as an existing directory: the source
// directory's own mode (incl. sticky/setgid bits), owner and xattrs are not applied to it, and a
// symbolic mode is never consulted for it - while the same copy without directory-contents mode
// reproduces them. "Copying a source directory into an empty destination reproduces it: ...
// permission and special mode bits, uid/gid, ... xattrs". This test FAILS on the current tree.

import (
	"context"
	"os"
	"path/filepath"
	"syscall"
	"testing"

	"github.com/stretchr/testify/require"
)

func TestFindingF34CopyDirContentsTargetMetadata(t *testing.T) {
	src, dst := t.TempDir(), t.TempDir()
	d := filepath.Join(src, "d")
	require.NoError(t, os.Mkdir(d, 0700))
	require.NoError(t, os.Chmod(d, 0700|os.ModeSticky))
	require.NoError(t, os.Chown(d, 1234, 4321))
	require.NoError(t, os.WriteFile(filepath.Join(d, "f"), []byte("x"), 0644))
	require.NoError(t, Copy(context.Background(), src, "d", dst, "out", func(ci *CopyInfo) { ci.CopyDirContents = true }))
	fi, err := os.Lstat(filepath.Join(dst, "out"))
	require.NoError(t, err)
	st := fi.Sys().(*syscall.Stat_t)
	require.Equal(t, os.FileMode(0700)|os.ModeSticky|os.ModeDir, fi.Mode(), "mode of the copied directory")
	require.Equal(t, uint32(1234), st.Uid)
	require.Equal(t, uint32(4321), st.Gid)
}
