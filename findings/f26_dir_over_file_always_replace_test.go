package fs

// F26 (C15): prepareTargetDir appended the source directory's name to the destination whenever the
// destination EXISTED, not only when it is a directory: copying directory "a" to a destination
// path "x" that is a regular file aimed at "x/a", and creating its parent "x" failed with
// "mkdir x: not a directory" - also with always-replace, where the statement lets the source win
// ("a directory meeting a non-directory is an error that leaves the obstacle in place, unless
// always-replace is set, in which case the source wins"; a source directory lands inside an
// existing destination DIRECTORY under its own name). Fails before the fix, passes after.

import (
	"context"
	"os"
	"path/filepath"
	"testing"
)

func TestFindingF26DirectoryOverFileAlwaysReplace(t *testing.T) {
	mk := func() (string, string) {
		src, dst := t.TempDir(), t.TempDir()
		if err := os.MkdirAll(filepath.Join(src, "a"), 0755); err != nil {
			t.Fatal(err)
		}
		if err := os.WriteFile(filepath.Join(src, "a/f"), []byte("data"), 0644); err != nil {
			t.Fatal(err)
		}
		if err := os.WriteFile(filepath.Join(dst, "x"), []byte("old"), 0644); err != nil {
			t.Fatal(err)
		}
		return src, dst
	}
	// without always-replace: an error, the obstacle stays
	src, dst := mk()
	if err := Copy(context.Background(), src, "a", dst, "x"); err == nil {
		t.Fatal("directory over file without always-replace succeeded")
	}
	if b, err := os.ReadFile(filepath.Join(dst, "x")); err != nil || string(b) != "old" {
		t.Fatalf("obstacle not left in place: %q %v", b, err)
	}
	// with always-replace: the source wins
	src, dst = mk()
	if err := Copy(context.Background(), src, "a", dst, "x", func(ci *CopyInfo) { ci.AlwaysReplaceExistingDestPaths = true }); err != nil {
		t.Fatalf("directory over file with always-replace: %v", err)
	}
	if b, err := os.ReadFile(filepath.Join(dst, "x/f")); err != nil || string(b) != "data" {
		t.Fatalf("x was not replaced by the source directory: %q %v", b, err)
	}
}
