package fs

// F23 (C13): copyXAttrs returned the result of the caller's xattr error handler from inside its
// loop, so a handler that tolerates a failure (returns nil - AllowXAttrErrors does) ended the
// loop: every attribute listed after the one that failed was silently dropped, without the
// handler being asked about it. Fails before the fix, passes after.
//
// Input: a source file on tmpfs (/dev/shm) with three user xattrs, the middle one too large for
// the destination file system (ext4 rejects a 60000-byte value), copied with AllowXAttrErrors.

import (
	"context"
	"os"
	"path/filepath"
	"sort"
	"testing"

	"github.com/containerd/continuity/sysx"
)

func TestFindingF23XattrHandlerSkipsOneAttributeOnly(t *testing.T) {
	src, err := os.MkdirTemp("/dev/shm", "f23src")
	if err != nil {
		t.Skipf("no tmpfs: %v", err)
	}
	defer os.RemoveAll(src)
	dst := t.TempDir()
	f := filepath.Join(src, "f")
	if err := os.WriteFile(f, []byte("data"), 0644); err != nil {
		t.Fatal(err)
	}
	big := make([]byte, 60000)
	for _, kv := range []struct {
		k string
		v []byte
	}{{"user.a", []byte("1")}, {"user.big", big}, {"user.z", []byte("2")}} {
		if err := sysx.LSetxattr(f, kv.k, kv.v, 0); err != nil {
			t.Skipf("source file system does not take the xattr %s: %v", kv.k, err)
		}
	}
	probe := filepath.Join(dst, "probe")
	os.WriteFile(probe, nil, 0644)
	if err := sysx.LSetxattr(probe, "user.big", big, 0); err == nil {
		t.Skip("the destination file system stores a 60000-byte xattr: no failure to tolerate")
	}
	os.Remove(probe)

	var asked []string
	handler := func(dst, src, key string, err error) error {
		asked = append(asked, key)
		return nil
	}
	if err := Copy(context.Background(), src, "f", dst, "f", WithXAttrErrorHandler(handler)); err != nil {
		t.Fatalf("copy: %v", err)
	}
	got, err := sysx.LListxattr(filepath.Join(dst, "f"))
	if err != nil {
		t.Fatal(err)
	}
	sort.Strings(got)
	if len(got) != 2 || got[0] != "user.a" || got[1] != "user.z" {
		t.Fatalf("destination xattrs %v, want [user.a user.z] (handler asked about %v)", got, asked)
	}
	if len(asked) != 1 || asked[0] != "user.big" {
		t.Fatalf("handler asked about %v, want [user.big]", asked)
	}
}
