package fsutil

// F12 (C10): include pattern "a/*/**". patternWithoutTrailingGlob stripped BOTH
// trailing globs ("a/*/**" -> "a/*" -> "a"), so the pattern counted as a plain
// prefix, pruning was enabled and the directory a/b (which contains every match)
// was skipped: the filtered walk reported nothing, the naive evaluation reports
// a, a/b, a/b/c, a/b/c/f, a/b/g. Fails before the fix 36a5bd4, passes after.

import (
	"context"
	gofs "io/fs"
	"os"
	"path/filepath"
	"reflect"
	"testing"
)

func TestFindingF12DoubleGlobPrune(t *testing.T) {
	d := t.TempDir()
	os.MkdirAll(filepath.Join(d, "a/b/c"), 0755)
	os.WriteFile(filepath.Join(d, "a/b/c/f"), []byte("x"), 0644)
	os.WriteFile(filepath.Join(d, "a/b/g"), []byte("x"), 0644)
	os.WriteFile(filepath.Join(d, "a/h"), []byte("x"), 0644)
	var got []string
	err := Walk(context.Background(), d, &FilterOpt{IncludePatterns: []string{"a/*/**"}}, func(p string, fi gofs.FileInfo, err error) error {
		got = append(got, p)
		return err
	})
	if err != nil {
		t.Fatal(err)
	}
	want := []string{"a", "a/b", "a/b/c", "a/b/c/f", "a/b/g"}
	if !reflect.DeepEqual(got, want) {
		t.Fatalf("filtered walk with include a/*/**: got %v, want %v (pruning changed the result)", got, want)
	}
}
