package fsutil

// F29 (C03): the hard-link check only verifies that the link source was SENT earlier, not that
// this transfer wrote it. When the entry named as link source was not written (a receive-side
// Filter rejects it, or it is metadata-only in merge mode) and the destination already holds a
// symlink under that name pointing outside, os.Link linked the symlink itself (link(2) does not
// follow) and the metadata of the new name was then applied by path: os.Chmod followed the link and
// set a sender-chosen mode on the outside file, with Receive returning nil. A hard link whose
// source in the destination is a symlink is now rejected. Fails before the fix, passes after.

import (
	"context"
	"os"
	"path/filepath"
	"testing"

	"github.com/stretchr/testify/require"
	"github.com/tonistiigi/fsutil/types"
	"golang.org/x/sync/errgroup"
)

func f29Send(s Stream, stats []*types.Stat) error {
	for _, st := range stats {
		if err := s.SendMsg(&types.Packet{Type: types.PACKET_STAT, Stat: st}); err != nil {
			return err
		}
	}
	s.SendMsg(&types.Packet{Type: types.PACKET_STAT})
	for {
		var p types.Packet
		if err := s.RecvMsg(&p); err != nil {
			return nil
		}
		switch p.Type {
		case types.PACKET_REQ:
			s.SendMsg(&types.Packet{Type: types.PACKET_DATA, ID: p.ID, Data: []byte("pwn")})
			s.SendMsg(&types.Packet{Type: types.PACKET_DATA, ID: p.ID})
		case types.PACKET_FIN:
			s.SendMsg(&types.Packet{Type: types.PACKET_FIN})
			return nil
		case types.PACKET_ERR:
			return nil
		}
	}
}

func f29Recv(dest string, stats []*types.Stat, opt ReceiveOpt) error {
	eg, ctx := errgroup.WithContext(context.Background())
	s1, s2 := sockPairProto(ctx)
	eg.Go(func() error {
		defer s1.(*fakeConnProto).closeSend()
		return f29Send(s1, stats)
	})
	var rerr error
	eg.Go(func() error {
		rerr = Receive(ctx, s2, dest, opt)
		return rerr
	})
	eg.Wait()
	return rerr
}

func f29Setup(t *testing.T) (dest, victim string) {
	tmp := t.TempDir()
	dest = filepath.Join(tmp, "dest")
	outside := filepath.Join(tmp, "outside")
	require.NoError(t, os.Mkdir(dest, 0755))
	require.NoError(t, os.Mkdir(outside, 0755))
	victim = filepath.Join(outside, "victim")
	require.NoError(t, os.WriteFile(victim, []byte("precious"), 0600))
	require.NoError(t, os.Symlink(victim, filepath.Join(dest, "a")))
	return
}

// Merge + MetadataOnly: "a" is metadata-only (never written), "b.json" is a hard link to "a".
func TestFindingF29MergeMetadataOnlyHardlink(t *testing.T) {
	dest, victim := f29Setup(t)
	err := f29Recv(dest, []*types.Stat{
		{Path: "a", Mode: 0644},
		{Path: "b.json", Mode: 0777, Linkname: "a"},
	}, ReceiveOpt{
		Merge:        true,
		MetadataOnly: func(p string, s *types.Stat) bool { return filepath.Ext(p) == ".json" },
	})
	t.Logf("receive: %v", err)
	fi, err := os.Stat(victim)
	require.NoError(t, err)
	require.Equal(t, os.FileMode(0600), fi.Mode())
}

// Receiver-side Filter that drops "a": hard link "b" -> "a" still applied.
func TestFindingF29FilterHardlink(t *testing.T) {
	dest, victim := f29Setup(t)
	err := f29Recv(dest, []*types.Stat{
		{Path: "a", Mode: 0644},
		{Path: "b", Mode: 0777, Linkname: "a"},
	}, ReceiveOpt{
		Filter: func(p string, s *types.Stat) bool { return p != "a" },
	})
	t.Logf("receive: %v", err)
	fi, err := os.Stat(victim)
	require.NoError(t, err)
	require.Equal(t, os.FileMode(0600), fi.Mode())
}
