package fsutil

// F42 (C01): an UNPRIVILEGED receiver (no CAP_FSETID) loses the set-uid / set-gid bits of every
// NON-EMPTY regular file: HandleChange creates the file and applies its mode (04755) at once, the
// content arrives later through the asynchronous writer, the kernel clears set-uid/set-gid on a
// write by a process without CAP_FSETID, and after the content only the mtime is re-applied, not
// the mode. Send and Receive both return success. The property quantifies over "unprivileged
// receiver" x "suid bits". An empty set-uid file keeps its bits (no write happens).
// As root the test re-executes itself as uid/gid 65534. Fails on the unchanged code (known finding).

import (
	"context"
	"io"
	"os"
	"os/exec"
	"path/filepath"
	"syscall"
	"testing"

	"github.com/stretchr/testify/require"
	"golang.org/x/sync/errgroup"
)

func TestFindingF42UnprivilegedSetuidAfterContent(t *testing.T) {
	if os.Getenv("GOVC_F42_CHILD") == "" && os.Geteuid() == 0 {
		dir, err := os.MkdirTemp("/var/tmp", "govc-f42-")
		require.NoError(t, err)
		defer os.RemoveAll(dir)
		require.NoError(t, os.Chmod(dir, 0777))
		bin := filepath.Join(dir, "f42.test")
		in, err := os.Open(os.Args[0])
		require.NoError(t, err)
		out, err := os.OpenFile(bin, os.O_CREATE|os.O_WRONLY, 0755)
		require.NoError(t, err)
		_, err = io.Copy(out, in)
		require.NoError(t, err)
		in.Close()
		require.NoError(t, out.Close())
		cmd := exec.Command(bin, "-test.run", "^TestFindingF42UnprivilegedSetuidAfterContent$", "-test.v")
		cmd.Env = append(os.Environ(), "GOVC_F42_CHILD=1", "TMPDIR="+dir, "HOME="+dir)
		cmd.Dir = dir
		cmd.SysProcAttr = &syscall.SysProcAttr{Credential: &syscall.Credential{Uid: 65534, Gid: 65534, Groups: []uint32{}}}
		b, err := cmd.CombinedOutput()
		t.Log(string(b))
		require.NoError(t, err, "the unprivileged run failed")
		return
	}
	src, dest := t.TempDir(), t.TempDir()
	mk := func(name string, data string, mode os.FileMode) {
		p := filepath.Join(src, name)
		require.NoError(t, os.WriteFile(p, []byte(data), 0755))
		require.NoError(t, os.Chmod(p, mode))
		fi, err := os.Lstat(p)
		require.NoError(t, err)
		require.Equal(t, mode, fi.Mode(), "source %s", name)
	}
	mk("empty-suid", "", 0755|os.ModeSetuid)
	mk("plain", "data", 0755)
	mk("suid", "data", 0755|os.ModeSetuid)
	mk("sgid", "data", 0755|os.ModeSetgid)
	fs, err := NewFS(src)
	require.NoError(t, err)
	eg, ctx := errgroup.WithContext(context.Background())
	s1, s2 := sockPairProto(ctx)
	eg.Go(func() error { defer s1.(*fakeConnProto).closeSend(); return Send(ctx, s1, fs, nil) })
	eg.Go(func() error { return Receive(ctx, s2, dest, ReceiveOpt{}) })
	require.NoError(t, eg.Wait())
	for _, n := range []string{"empty-suid", "plain", "suid", "sgid"} {
		sfi, err := os.Lstat(filepath.Join(src, n))
		require.NoError(t, err)
		dfi, err := os.Lstat(filepath.Join(dest, n))
		require.NoError(t, err)
		require.Equal(t, sfi.Mode(), dfi.Mode(), "mode of %s after a successful transfer (euid %d)", n, os.Geteuid())
	}
}
