package fs

import (
	"os"
	"path/filepath"
	"syscall"
	"testing"

	"golang.org/x/sys/unix"
)

// F1 (C13): copying a block device must yield a block device.
func TestFindingF1CopyBlockDevice(t *testing.T) {
	if os.Getuid() != 0 {
		t.Skip("needs root for mknod")
	}
	d := t.TempDir()
	src := filepath.Join(d, "blk")
	if err := unix.Mknod(src, syscall.S_IFBLK|0640, int(unix.Mkdev(7, 9))); err != nil {
		t.Skip("mknod not permitted: ", err)
	}
	fi, err := os.Lstat(src)
	if err != nil {
		t.Fatal(err)
	}
	dst := filepath.Join(d, "copy")
	if err := copyDevice(dst, fi); err != nil {
		t.Fatal(err)
	}
	var st syscall.Stat_t
	if err := syscall.Lstat(dst, &st); err != nil {
		t.Fatal(err)
	}
	if st.Mode&syscall.S_IFMT != syscall.S_IFBLK {
		t.Errorf("copy has type bits %#o, want S_IFBLK %#o", st.Mode&syscall.S_IFMT, syscall.S_IFBLK)
	}
	if st.Rdev != unix.Mkdev(7, 9) {
		t.Errorf("rdev %d", st.Rdev)
	}
}
