package fsutil

// F21 (C18): a follow-path that reaches the root together with include patterns.
// FollowLinks answers nil ("the root is reached: no filter"), NewFilterFS then
// skipped the merge and kept the caller's include patterns, so not even the
// requested link itself is part of the view and the path does not resolve in the
// transferred tree. Fails before the fix, passes after.

import (
	"context"
	gofs "io/fs"
	"os"
	"path/filepath"
	"testing"
)

func TestFindingF21FollowRootWithIncludes(t *testing.T) {
	d := t.TempDir()
	os.WriteFile(filepath.Join(d, "bar"), []byte("1"), 0644)
	os.WriteFile(filepath.Join(d, "baz"), []byte("2"), 0644)
	os.Symlink("/", filepath.Join(d, "l"))
	fs, err := NewFS(d)
	if err != nil {
		t.Fatal(err)
	}
	f, err := NewFilterFS(fs, &FilterOpt{IncludePatterns: []string{"bar"}, FollowPaths: []string{"l"}})
	if err != nil {
		t.Fatal(err)
	}
	got := map[string]bool{}
	err = f.Walk(context.Background(), "", func(p string, e gofs.DirEntry, err error) error {
		got[p] = true
		return err
	})
	if err != nil {
		t.Fatal(err)
	}
	// l -> / : l/baz resolves to baz in the source, so l and baz must be part of the view
	for _, want := range []string{"l", "baz", "bar"} {
		if !got[want] {
			t.Fatalf("view %v lacks %q although the follow-path l reaches the root", got, want)
		}
	}
}
