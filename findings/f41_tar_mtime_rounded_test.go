package fsutil

// F41 (C17): WriteTar handed archive/tar a header with the nanosecond mtime; for the format it
// picks, archive/tar ROUNDS the time to the nearest second, so an entry modified at 1000.7 s was
// archived (and extracted) with mtime 1001 s - later than the view's mtime, and not "the view's
// mtime to the second" (1000). Every entry whose mtime has a fraction >= 0.5 s was affected.
// Fails before the fix, passes after.

import (
	"archive/tar"
	"bytes"
	"context"
	"io"
	"os"
	"path/filepath"
	"testing"
	"time"

	"github.com/stretchr/testify/require"
)

func TestFindingF41TarMtimeRounded(t *testing.T) {
	d := t.TempDir()
	for name, ns := range map[string]int64{"early": 1000200000000, "late": 1000700000000, "edge": 1000999999999, "whole": 1000000000000} {
		p := filepath.Join(d, name)
		require.NoError(t, os.WriteFile(p, []byte("x"), 0644))
		require.NoError(t, os.Chtimes(p, time.Unix(0, ns), time.Unix(0, ns)))
	}
	fs, err := NewFS(d)
	require.NoError(t, err)
	buf := &bytes.Buffer{}
	require.NoError(t, WriteTar(context.Background(), fs, buf))
	tr := tar.NewReader(buf)
	n := 0
	for {
		h, err := tr.Next()
		if err == io.EOF {
			break
		}
		require.NoError(t, err)
		n++
		require.Equal(t, int64(1000), h.ModTime.Unix(), "member %s: the view's mtime is 1000.x s", h.Name)
	}
	require.Equal(t, 4, n)
}
