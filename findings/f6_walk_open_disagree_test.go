package fsutil

import (
	"context"
	gofs "io/fs"
	"os"
	"path/filepath"
	"testing"

	"golang.org/x/sync/errgroup"
)

// F6 (C11): the filtered walk decides visibility with the matcher's incremental
// entry point (MatchesUsingParentResults), filterFS.Open with
// MatchesOrParentMatches. For pattern lists in which a negation of an ancestor
// follows a pattern below it the two disagree: the walk announces a file that
// Open reports as not existing; the sender turns the open failure into empty
// content and the transfer "succeeds" with an empty file.
func TestFindingF6WalkOpenDisagree(t *testing.T) {
	src, dest := t.TempDir(), t.TempDir()
	os.MkdirAll(filepath.Join(src, "a", "b"), 0755)
	os.WriteFile(filepath.Join(src, "a", "b", "c"), []byte("content"), 0644)
	base, err := NewFS(src)
	if err != nil {
		t.Fatal(err)
	}
	view, err := NewFilterFS(base, &FilterOpt{IncludePatterns: []string{"a/b", "!a"}})
	if err != nil {
		t.Fatal(err)
	}
	var files []string
	view.Walk(context.Background(), "", func(p string, e gofs.DirEntry, err error) error {
		if err == nil && !e.IsDir() {
			files = append(files, p)
		}
		return err
	})
	for _, f := range files {
		rc, err := view.Open(f)
		if err != nil {
			t.Errorf("walk reports %q but Open through the same view fails: %v", f, err)
			continue
		}
		rc.Close()
	}
	s1, s2 := sockPairProto(context.Background())
	eg, ctx := errgroup.WithContext(context.Background())
	eg.Go(func() error {
		defer s1.(*fakeConnProto).closeSend()
		return Send(ctx, s1, view, nil)
	})
	eg.Go(func() error { return Receive(ctx, s2, dest, ReceiveOpt{}) })
	if err := eg.Wait(); err != nil {
		t.Logf("transfer failed: %v", err)
		return
	}
	for _, f := range files {
		dt, err := os.ReadFile(filepath.Join(dest, f))
		if err != nil || string(dt) != "content" {
			t.Errorf("transfer succeeded but dest/%s = %q (err %v), want %q", f, dt, err, "content")
		}
	}
}
