package fsutil

// F39 (C01, C02): the walker reports a later name of ANY non-directory inode with several names as
// a hard link of the first (also for fifos and device nodes), but the disk writer tested "device
// or fifo" before "has a link name" and created an independent node with mknod: the hard-link
// group was not reproduced, and because the destination walk then reports the second name without
// a link name, the identity comparison differed on every pass - each re-sync of the unchanged
// source re-created the node and emitted a modify notification. Fails before the fix, passes after.

import (
	"context"
	"os"
	"path/filepath"
	"syscall"
	"testing"

	"github.com/stretchr/testify/require"
	"golang.org/x/sync/errgroup"
	"golang.org/x/sys/unix"
)

func TestFindingF39HardlinkedFifo(t *testing.T) {
	src, dest := t.TempDir(), t.TempDir()
	require.NoError(t, unix.Mkfifo(filepath.Join(src, "p1"), 0644))
	require.NoError(t, os.Link(filepath.Join(src, "p1"), filepath.Join(src, "p2")))
	sync := func() map[string]ChangeKind {
		fs, err := NewFS(src)
		require.NoError(t, err)
		chs := &changes{fn: func(ChangeKind, string, os.FileInfo, error) error { return nil }}
		eg, ctx := errgroup.WithContext(context.Background())
		s1, s2 := sockPairProto(ctx)
		eg.Go(func() error { defer s1.(*fakeConnProto).closeSend(); return Send(ctx, s1, fs, nil) })
		eg.Go(func() error {
			return Receive(ctx, s2, dest, ReceiveOpt{NotifyHashed: chs.HandleChange, ContentHasher: simpleSHA256Hasher})
		})
		require.NoError(t, eg.Wait())
		return chs.c
	}
	sync()
	ino := func(n string) uint64 {
		fi, err := os.Lstat(filepath.Join(dest, n))
		require.NoError(t, err)
		require.True(t, fi.Mode()&os.ModeNamedPipe != 0, "%s is not a fifo", n)
		return fi.Sys().(*syscall.Stat_t).Ino
	}
	require.Equal(t, ino("p1"), ino("p2"), "the two names of the fifo are one inode in the source, not in the destination")
	require.Empty(t, sync(), "re-sync of the unchanged source")
}
