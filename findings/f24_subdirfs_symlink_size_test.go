package fsutil

// F24 (C02, C09): SubDirFS re-roots the target of an absolute symlink below the sub-root's name
// ("/x" -> "/sub/x") but left the stat's size at the length of the old target. A symlink's size is
// the length of its target: the walk of the destination written from this view reports the new
// length, the identity comparison saw a size difference on every pass, and each re-sync of the
// unchanged source re-created the link (new inode, one modify notification). Fails before the
// fix, passes after.

import (
	"context"
	"os"
	"path/filepath"
	"syscall"
	"testing"

	"github.com/stretchr/testify/require"
	"github.com/tonistiigi/fsutil/types"
	"golang.org/x/sync/errgroup"
)

func f24Sync(t *testing.T, fs FS, dest string, opt ReceiveOpt) map[string]ChangeKind {
	t.Helper()
	chs := &changes{fn: func(ChangeKind, string, os.FileInfo, error) error { return nil }}
	opt.NotifyHashed = chs.HandleChange
	opt.ContentHasher = simpleSHA256Hasher
	eg, ctx := errgroup.WithContext(context.Background())
	s1, s2 := sockPairProto(ctx)
	eg.Go(func() error {
		defer s1.(*fakeConnProto).closeSend()
		return Send(ctx, s1, fs, nil)
	})
	eg.Go(func() error { return Receive(ctx, s2, dest, opt) })
	require.NoError(t, eg.Wait())
	return chs.c
}

func f24Ino(t *testing.T, p string) uint64 {
	fi, err := os.Lstat(p)
	require.NoError(t, err)
	return fi.Sys().(*syscall.Stat_t).Ino
}

func TestFindingF24SubDirAbsoluteSymlinkStable(t *testing.T) {
	src := t.TempDir()
	require.NoError(t, os.WriteFile(filepath.Join(src, "x"), []byte("data1"), 0644))
	require.NoError(t, os.Symlink("/x", filepath.Join(src, "abs")))
	require.NoError(t, os.Symlink("x", filepath.Join(src, "rel")))
	base, err := NewFS(src)
	require.NoError(t, err)
	mk := func() FS {
		fs, err := SubDirFS([]Dir{{FS: base, Stat: &types.Stat{Path: "sub", Mode: uint32(os.ModeDir | 0755)}}})
		require.NoError(t, err)
		return fs
	}
	dest := t.TempDir()
	n := f24Sync(t, mk(), dest, ReceiveOpt{})
	t.Logf("sync1: %v", n)
	tgt, _ := os.Readlink(filepath.Join(dest, "sub/abs"))
	t.Logf("dest target: %q", tgt)
	ino := f24Ino(t, filepath.Join(dest, "sub/abs"))
	n = f24Sync(t, mk(), dest, ReceiveOpt{})
	t.Logf("sync2: %v ino before %d after %d", n, ino, f24Ino(t, filepath.Join(dest, "sub/abs")))
	require.Empty(t, n)
}

