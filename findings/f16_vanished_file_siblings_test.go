package fsutil

// F16 (C09, C06): an entry that vanishes between the directory listing and its
// lstat. fs.Walk maps every not-exist error to filepath.SkipDir; for a
// NON-directory entry WalkDir takes SkipDir as "skip the rest of the containing
// directory", so all later siblings - which exist the whole time - are silently
// not reported and the walk returns success. Fails before the fix.

import (
	"context"
	gofs "io/fs"
	"os"
	"path/filepath"
	"reflect"
	"testing"
)

func TestFindingF16VanishedFileDropsSiblings(t *testing.T) {
	d := t.TempDir()
	for _, f := range []string{"a", "b", "c", "d", "e/f"} {
		os.MkdirAll(filepath.Dir(filepath.Join(d, f)), 0755)
		os.WriteFile(filepath.Join(d, f), []byte("x"), 0644)
	}
	fs, err := NewFS(d)
	if err != nil {
		t.Fatal(err)
	}
	var got []string
	err = fs.Walk(context.Background(), "", func(p string, e gofs.DirEntry, err error) error {
		if err != nil {
			return err
		}
		if p == "a" {
			os.Remove(filepath.Join(d, "b")) // b vanishes after the directory was listed
		}
		if _, err := e.Info(); err != nil {
			return err
		}
		got = append(got, p)
		return nil
	})
	if err != nil {
		t.Fatal(err)
	}
	want := []string{"a", "c", "d", "e", "e/f"}
	if !reflect.DeepEqual(got, want) {
		t.Fatalf("walk reported %v, want %v (siblings of the vanished file were dropped)", got, want)
	}
}
