package fsutil

// F30 (C17, C11, C09) KNOWN FINDING, not repaired. filterFS.Walk builds an entry's stat (which
// registers its inode as the first name of its hard-link group) BEFORE it consults the map
// function. When the map function drops that first name (MapResultExclude), the next name of the
// group is still reported as a hard link to it: a tar export of the filtered view contains a link
// member naming an entry that is not in the archive, with no payload - the bytes are lost and the
// archive does not extract. (An exclude PATTERN for the same name is handled: the second name then
// becomes a regular file. Send wraps the view in a hard-link re-canonicaliser, WriteTar does not.)
// This test FAILS on the current tree.

import (
	"archive/tar"
	"bytes"
	"context"
	"io"
	"os"
	"path/filepath"
	"testing"

	"github.com/stretchr/testify/require"
	"github.com/tonistiigi/fsutil/types"
)

func TestFindingF30TarLinkToMapExcludedName(t *testing.T) {
	d := t.TempDir()
	require.NoError(t, os.WriteFile(filepath.Join(d, "a"), []byte("payload"), 0644))
	require.NoError(t, os.Link(filepath.Join(d, "a"), filepath.Join(d, "b")))
	base, err := NewFS(d)
	require.NoError(t, err)
	f, err := NewFilterFS(base, &FilterOpt{Map: func(p string, s *types.Stat) MapResult {
		if p == "a" {
			return MapResultExclude
		}
		return MapResultKeep
	}})
	require.NoError(t, err)
	var buf bytes.Buffer
	require.NoError(t, WriteTar(context.Background(), f, &buf))
	tr := tar.NewReader(&buf)
	names := map[string]bool{}
	for {
		h, err := tr.Next()
		if err == io.EOF {
			break
		}
		require.NoError(t, err)
		names[h.Name] = true
		if h.Typeflag == tar.TypeLink {
			require.True(t, names[h.Linkname], "member %q is a hard link to %q, which is not in the archive", h.Name, h.Linkname)
		}
		if h.Name == "b" {
			dt, err := io.ReadAll(tr)
			require.NoError(t, err)
			require.Equal(t, "payload", string(dt))
		}
	}
	require.True(t, names["b"])
	require.False(t, names["a"])
}
