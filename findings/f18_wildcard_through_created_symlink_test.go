package fs

// F18 (C14): a wildcard copy with several matches. Copy resolved the destination
// inside its root ONCE, before the loop over the matches. The first match (a
// symlink, copied verbatim) is created AT that path; for the second match the
// stale resolved path now contains a symlink component, os.Stat follows it and
// the entry is written through it - outside dstRoot when the link points there.
// Fails before the fix (destination re-resolved per match), passes after.

import (
	"context"
	"os"
	"path/filepath"
	"testing"
)

func TestFindingF18WildcardThroughCreatedSymlink(t *testing.T) {
	outside := t.TempDir()
	srcRoot := t.TempDir()
	if err := os.Symlink(outside, filepath.Join(srcRoot, "a")); err != nil {
		t.Fatal(err)
	}
	if err := os.WriteFile(filepath.Join(srcRoot, "b"), []byte("data"), 0644); err != nil {
		t.Fatal(err)
	}
	dstRoot := t.TempDir()
	err := Copy(context.TODO(), srcRoot, "*", dstRoot, "/out/sub", AllowWildcards)
	t.Logf("Copy: %v", err)
	ents, err := os.ReadDir(outside)
	if err != nil {
		t.Fatal(err)
	}
	if len(ents) != 0 {
		t.Fatalf("Copy created %q in %s, which is outside the destination root", ents[0].Name(), outside)
	}
}
