package fsutil

import (
	"context"
	"os"
	"path/filepath"
	"sort"
	"strings"
	"sync"
	"testing"

	"github.com/tonistiigi/fsutil/types"
	"golang.org/x/sync/errgroup"
)

func findingF5Sync(t *testing.T, src, dest string, sel FilterFunc) []string {
	s1, s2 := sockPairProto(context.Background())
	fs, err := NewFS(src)
	if err != nil {
		t.Fatal(err)
	}
	var mu sync.Mutex
	var log []string
	eg, ctx := errgroup.WithContext(context.Background())
	eg.Go(func() error {
		defer s1.(*fakeConnProto).closeSend()
		return Send(ctx, s1, fs, nil)
	})
	eg.Go(func() error {
		return Receive(ctx, s2, dest, ReceiveOpt{
			NotifyHashed: func(k ChangeKind, p string, fi os.FileInfo, err error) error {
				mu.Lock()
				log = append(log, k.String()+" "+p)
				mu.Unlock()
				return nil
			},
			ContentHasher: simpleSHA256Hasher,
			MetadataOnly:  sel,
		})
	})
	if err := eg.Wait(); err != nil {
		t.Fatal(err)
	}
	sort.Strings(log)
	return log
}

// F5 (C05): a pure metadata edit of a directory is applied to dest but was not
// reported; and (the other half of the same repair) a selected directory in
// metadata-only mode must still be reported exactly once.
func TestFindingF5DirMetadataNotify(t *testing.T) {
	src, dest := t.TempDir(), t.TempDir()
	os.MkdirAll(filepath.Join(src, "d"), 0755)
	os.WriteFile(filepath.Join(src, "d", "f"), []byte("x"), 0644)
	if got := strings.Join(findingF5Sync(t, src, dest, nil), ","); got != "add d,add d/f" {
		t.Fatalf("first sync: %s", got)
	}
	if err := os.Chmod(filepath.Join(src, "d"), 0700); err != nil {
		t.Fatal(err)
	}
	got := strings.Join(findingF5Sync(t, src, dest, nil), ",")
	fi, _ := os.Lstat(filepath.Join(dest, "d"))
	if fi.Mode().Perm() != 0700 {
		t.Fatalf("dest/d not updated: %v", fi.Mode())
	}
	if got != "modify d" {
		t.Errorf("directory metadata change applied to dest but notifications were [%s], want [modify d]", got)
	}
	dest2 := t.TempDir()
	got = strings.Join(findingF5Sync(t, src, dest2, func(p string, st *types.Stat) bool { return p == "d" || p == "d/f" }), ",")
	if got != "add d,add d/f" {
		t.Errorf("metadata-only with a selected directory: notifications [%s], want [add d,add d/f]", got)
	}
}
