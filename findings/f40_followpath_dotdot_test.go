package fsutil

// F40 (C18): a requested follow-path is to be resolved "as if the tree root were '/'", but only link
// targets were clamped to the root: a request with leading ".." components kept them
// (["../x"] -> ["../x"], which selects nothing in the transferred tree), and the resolver stat'ed
// and followed entries of the host directory ABOVE the view's root ("../outlink/z" followed a
// symlink that lives outside the tree). Requests are now clamped like link targets. Fails before
// the fix, passes after.

import (
	"os"
	"path/filepath"
	"testing"

	"github.com/stretchr/testify/require"
)

func TestFindingF40RequestedPathClampedToRoot(t *testing.T) {
	base := t.TempDir()
	root := filepath.Join(base, "root")
	require.NoError(t, os.MkdirAll(filepath.Join(root, "outdir"), 0755))
	require.NoError(t, os.WriteFile(filepath.Join(root, "x"), []byte("x"), 0644))
	require.NoError(t, os.WriteFile(filepath.Join(root, "outdir", "z"), []byte("z"), 0644))
	// a symlink in the HOST directory above the root; it is not part of the tree
	require.NoError(t, os.Symlink("root/outdir", filepath.Join(base, "outlink")))
	fs, err := NewFS(root)
	require.NoError(t, err)

	out, err := FollowLinks(fs, []string{"../x"})
	require.NoError(t, err)
	require.Equal(t, []string{"x"}, out, "a request with .. beyond the root is the same request from the root")

	out, err = FollowLinks(fs, []string{"../outlink/z"})
	require.NoError(t, err)
	require.Equal(t, []string{"outlink/z"}, out, "an entry above the root must not be looked at")

	// unchanged behaviour
	out, err = FollowLinks(fs, []string{"outdir/../x", "./outdir/z"})
	require.NoError(t, err)
	require.Equal(t, []string{"outdir/z", "x"}, out)
}
