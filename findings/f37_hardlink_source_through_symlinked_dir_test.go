package fsutil

// F37 (C03) KNOWN FINDING, not repaired. The hard-link check accepts a link whose source was SENT;
// it does not know whether the source (or the directory it lies in) was WRITTEN by this transfer.
// With merge + a metadata-only selector that skips the directory "d" and the file "d/a", a symlink
// "d -> ../outside" already present in the destination stays in place, and the selected entry "e"
// (a hard link of "d/a") is created with os.Link(dest/d/a, dest/e): the path is resolved through
// the old symlink, an inode OUTSIDE dest is linked into it and then re-owned / re-moded by the
// metadata step - Receive returns nil. (F29 closed the case where the link source itself is a
// leftover symlink; a symlink in an intermediate component needs the link source to be resolved
// component by component without following links.) This test FAILS on the current tree.


import (
	"context"
	"os"
	"path/filepath"
	"syscall"
	"testing"

	"github.com/stretchr/testify/require"
	"github.com/tonistiigi/fsutil/types"
	"golang.org/x/sync/errgroup"
)

func TestFindingF37HardlinkSourceThroughSymlinkedDir(t *testing.T) {
	src := t.TempDir()
	require.NoError(t, os.Mkdir(filepath.Join(src, "d"), 0755))
	require.NoError(t, os.WriteFile(filepath.Join(src, "d", "a"), []byte("payload"), 0666))
	require.NoError(t, os.Chmod(filepath.Join(src, "d", "a"), 0666))
	require.NoError(t, os.Chown(filepath.Join(src, "d", "a"), 4242, 4242))
	require.NoError(t, os.Link(filepath.Join(src, "d", "a"), filepath.Join(src, "e")))
	fs, err := NewFS(src)
	require.NoError(t, err)

	base := t.TempDir()
	dest := filepath.Join(base, "dest")
	outside := filepath.Join(base, "outside")
	require.NoError(t, os.Mkdir(dest, 0755))
	require.NoError(t, os.Mkdir(outside, 0755))
	victim := filepath.Join(outside, "a")
	require.NoError(t, os.WriteFile(victim, []byte("secret"), 0600))
	require.NoError(t, os.Symlink("../outside", filepath.Join(dest, "d")))
	before, err := os.Lstat(victim)
	require.NoError(t, err)

	eg, ctx := errgroup.WithContext(context.Background())
	s1, s2 := sockPairProto(ctx)
	eg.Go(func() error {
		defer s1.(*fakeConnProto).closeSend()
		return Send(ctx, s1, fs, nil)
	})
	eg.Go(func() error {
		return Receive(ctx, s2, dest, ReceiveOpt{
			Merge:        true,
			MetadataOnly: func(p string, s *types.Stat) bool { return p == "e" },
		})
	})
	t.Logf("transfer error: %v", eg.Wait())

	after, err := os.Lstat(victim)
	require.NoError(t, err)
	bs, as := before.Sys().(*syscall.Stat_t), after.Sys().(*syscall.Stat_t)
	t.Logf("before: uid=%d mode=%v nlink=%d; after: uid=%d mode=%v nlink=%d", bs.Uid, before.Mode(), bs.Nlink, as.Uid, after.Mode(), as.Nlink)
	require.Equal(t, bs.Uid, as.Uid)
	require.Equal(t, before.Mode(), after.Mode())
	require.Equal(t, bs.Nlink, as.Nlink)
}
