package fs

// F33 (C15): the copier remembers, per source inode, the destination path of its first copy and
// hard-links later names of that inode to it. When two wildcard matches are names of the same
// inode and both are copied to ONE destination path (a non-directory destination: "wildcard
// sources behave as the union of their matches", the last one wins), the second match found its own
// target as the link source: the target was unlinked to make room and os.Link(out, out) failed
// with "no such file", leaving nothing at the destination. A remembered path equal to the target
// is now copied, not linked. Fails before the fix, passes after.

import (
	"context"
	"os"
	"path/filepath"
	"testing"
)

func TestFindingF33WildcardMatchesSharingAnInode(t *testing.T) {
	src, dst := t.TempDir(), t.TempDir()
	if err := os.WriteFile(filepath.Join(src, "f1"), []byte("data"), 0644); err != nil {
		t.Fatal(err)
	}
	if err := os.Link(filepath.Join(src, "f1"), filepath.Join(src, "f2")); err != nil {
		t.Fatal(err)
	}
	if err := Copy(context.Background(), src, "f*", dst, "out", AllowWildcards); err != nil {
		t.Fatalf("copy of two names of one inode to one destination: %v", err)
	}
	b, err := os.ReadFile(filepath.Join(dst, "out"))
	if err != nil || string(b) != "data" {
		t.Fatalf("destination: %q %v", b, err)
	}
	// the same call with two unrelated files has always worked: last match wins
	src2, dst2 := t.TempDir(), t.TempDir()
	os.WriteFile(filepath.Join(src2, "f1"), []byte("one"), 0644)
	os.WriteFile(filepath.Join(src2, "f2"), []byte("two"), 0644)
	if err := Copy(context.Background(), src2, "f*", dst2, "out", AllowWildcards); err != nil {
		t.Fatal(err)
	}
	if b, _ := os.ReadFile(filepath.Join(dst2, "out")); string(b) != "two" {
		t.Fatalf("unrelated matches: %q", b)
	}
}
