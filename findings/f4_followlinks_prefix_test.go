package fsutil

import (
	"os"
	"path/filepath"
	"strings"
	"testing"
)

// F4 (C18): FollowLinks sorts bytewise before removing nested paths, but
// dedupePaths needs path order (separator lowest): "a" < "a-b" < "a/x" bytewise
// puts "a-b" between "a" and its descendant, so "a/x" survives inside "a".
func TestFindingF4FollowLinksNested(t *testing.T) {
	root := t.TempDir()
	os.MkdirAll(filepath.Join(root, "a"), 0755)
	os.WriteFile(filepath.Join(root, "a", "x"), []byte("x"), 0644)
	os.WriteFile(filepath.Join(root, "a-b"), []byte("y"), 0644)
	fs, err := NewFS(root)
	if err != nil {
		t.Fatal(err)
	}
	out, err := FollowLinks(fs, []string{"a", "a-b", "a/x"})
	if err != nil {
		t.Fatal(err)
	}
	for _, x := range out {
		for _, y := range out {
			if x != y && strings.HasPrefix(x, y+"/") {
				t.Errorf("FollowLinks returned %v: %q is inside %q", out, x, y)
			}
		}
	}
}
