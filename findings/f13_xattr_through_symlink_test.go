package fsutil

// F13 (C03, C01): rewriteMetadata applied the xattrs of a received entry with
// sysx.Setxattr, which follows symlinks. For a symlink entry carrying xattrs
// (the sender reads them with the no-follow variants, and an untrusted sender
// can attach any map) the attribute was written to the link TARGET - a file
// outside dest when the link points there. Fails before the fix, passes after.

import (
	"context"
	"os"
	"path/filepath"
	"testing"

	"github.com/containerd/continuity/sysx"
	"github.com/tonistiigi/fsutil/types"
	"golang.org/x/sync/errgroup"
)

func TestFindingF13XattrThroughSymlink(t *testing.T) {
	outside := t.TempDir()
	victim := filepath.Join(outside, "victim")
	if err := os.WriteFile(victim, []byte("keep"), 0600); err != nil {
		t.Fatal(err)
	}
	if err := sysx.LSetxattr(victim, "user.probe", []byte("x"), 0); err != nil {
		t.Skipf("xattrs not supported here: %v", err)
	}
	sysx.LRemovexattr(victim, "user.probe")

	src := t.TempDir()
	if err := os.Symlink(victim, filepath.Join(src, "lnk")); err != nil {
		t.Fatal(err)
	}
	fs, err := NewFS(src)
	if err != nil {
		t.Fatal(err)
	}
	// the peer attaches an xattr to the symlink entry (a hostile or merely unusual sender)
	fs, err = NewFilterFS(fs, &FilterOpt{Map: func(p string, s *types.Stat) MapResult {
		if p == "lnk" {
			s.Xattrs = map[string][]byte{"user.injected": []byte("owned")}
		}
		return MapResultKeep
	}})
	if err != nil {
		t.Fatal(err)
	}
	dest := t.TempDir()
	eg, ctx := errgroup.WithContext(context.Background())
	s1, s2 := sockPairProto(ctx)
	eg.Go(func() error {
		defer s1.(*fakeConnProto).closeSend()
		return Send(ctx, s1, fs, nil)
	})
	eg.Go(func() error {
		return Receive(ctx, s2, dest, ReceiveOpt{})
	})
	if err := eg.Wait(); err != nil {
		t.Logf("transfer: %v", err)
	}
	if v, err := sysx.LGetxattr(victim, "user.injected"); err == nil {
		t.Fatalf("receiver wrote xattr user.injected=%q to %s, which is outside dest (through the symlink dest/lnk)", v, victim)
	}
}
