package fsutil

import (
	"context"
	"os"
	"path/filepath"
	"testing"

	"github.com/tonistiigi/fsutil/types"
	"golang.org/x/sync/errgroup"
)

// F3 (C19, C07): a source that itself contains ".fsutil-metadata" shifts the
// receiver's id counter by one in metadata-only mode.
func TestFindingF3MetadataIDSkew(t *testing.T) {
	src := t.TempDir()
	dest := t.TempDir()
	if err := os.WriteFile(filepath.Join(src, ".fsutil-metadata"), []byte("BOGUS-LISTING"), 0644); err != nil {
		t.Fatal(err)
	}
	if err := os.WriteFile(filepath.Join(src, "foo"), []byte("foo-content"), 0644); err != nil {
		t.Fatal(err)
	}
	if err := os.WriteFile(filepath.Join(src, "zzz"), []byte("zzz-content"), 0644); err != nil {
		t.Fatal(err)
	}
	s1, s2 := sockPairProto(context.Background())
	fs, err := NewFS(src)
	if err != nil {
		t.Fatal(err)
	}
	eg, ctx := errgroup.WithContext(context.Background())
	eg.Go(func() error {
		defer s1.(*fakeConnProto).closeSend()
		return Send(ctx, s1, fs, nil)
	})
	eg.Go(func() error {
		return Receive(ctx, s2, dest, ReceiveOpt{
			MetadataOnly: func(p string, st *types.Stat) bool { return p == "foo" },
		})
	})
	if err := eg.Wait(); err != nil {
		// an error is an acceptable outcome; silent corruption is not
		t.Logf("transfer failed: %v", err)
		return
	}
	dt, err := os.ReadFile(filepath.Join(dest, "foo"))
	if err != nil {
		t.Fatal(err)
	}
	if string(dt) != "foo-content" {
		t.Errorf("dest/foo = %q, want %q", dt, "foo-content")
	}
}
