package fsutil

// F19 (C09, also C11/C17/C01) - KNOWN FINDING, not repaired: the inode map that
// canonicalises hard links is keyed by the inode number alone, not by (device,
// inode). With a mount point inside the walked tree two unrelated files with
// equal inode numbers (and link count > 1) are reported as links of each other:
// the later one names the first, its own content is lost on transfer. Needs root
// (mounts two tmpfs); skips when mounting is not permitted.

import (
	"context"
	gofs "io/fs"
	"os"
	"path/filepath"
	"syscall"
	"testing"

	"github.com/tonistiigi/fsutil/types"
)

func TestFindingF19InodeKeyWithoutDevice(t *testing.T) {
	d := t.TempDir()
	for _, m := range []string{"m1", "m2"} {
		mp := filepath.Join(d, m)
		os.Mkdir(mp, 0755)
		if err := syscall.Mount("tmpfs", mp, "tmpfs", 0, ""); err != nil {
			t.Skipf("cannot mount tmpfs: %v", err)
		}
		defer syscall.Unmount(mp, 0)
		os.WriteFile(filepath.Join(mp, "a"), []byte("data-"+m), 0600)
		os.Link(filepath.Join(mp, "a"), filepath.Join(mp, "b"))
	}
	var s1, s2 syscall.Stat_t
	syscall.Lstat(filepath.Join(d, "m1/a"), &s1)
	syscall.Lstat(filepath.Join(d, "m2/a"), &s2)
	if s1.Ino != s2.Ino || s1.Dev == s2.Dev {
		t.Skipf("inode numbers do not collide here (%d/%d vs %d/%d)", s1.Dev, s1.Ino, s2.Dev, s2.Ino)
	}
	f, err := NewFS(d)
	if err != nil {
		t.Fatal(err)
	}
	links := map[string]string{}
	err = f.Walk(context.Background(), "", func(p string, e gofs.DirEntry, err error) error {
		if err != nil {
			return err
		}
		fi, err := e.Info()
		if err != nil {
			return err
		}
		links[p] = fi.Sys().(*types.Stat).Linkname
		return nil
	})
	if err != nil {
		t.Fatal(err)
	}
	if links["m2/a"] != "" || links["m2/b"] != "m2/a" {
		t.Fatalf("m2/a -> %q, m2/b -> %q: files on another device were taken for links of m1/a", links["m2/a"], links["m2/b"])
	}
}
