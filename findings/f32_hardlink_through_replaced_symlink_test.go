package fs

// F32 (C14) KNOWN FINDING, not repaired. The copier remembers, per source inode, the DESTINATION
// path of the first copy and creates later names of that inode with os.Link(remembered, target).
// The map is shared by all sources of one Copy call. With wildcards and always-replace a later
// source can replace a directory on the remembered path by a symlink that points outside;
// link(2) then resolves the remembered path through it: the new destination entry is a hard link
// to a file OUTSIDE both roots (bytes from outside the source root in the destination, the
// outside inode's link count changed), and Copy returns nil. This test FAILS on the current tree.

import (
	"context"
	"os"
	"path/filepath"
	"testing"

	"github.com/stretchr/testify/require"
)

func TestFindingF32HardlinkThroughReplacedSymlink(t *testing.T) {
	base := t.TempDir()
	srcRoot, dstRoot, outside := filepath.Join(base, "src"), filepath.Join(base, "dst"), filepath.Join(base, "outside")
	for _, d := range []string{srcRoot, dstRoot, outside, srcRoot + "/x/dirA", srcRoot + "/y", srcRoot + "/z", dstRoot + "/out"} {
		require.NoError(t, os.MkdirAll(d, 0755))
	}
	require.NoError(t, os.WriteFile(outside+"/f", []byte("SECRET"), 0600))
	require.NoError(t, os.WriteFile(srcRoot+"/x/dirA/f", []byte("data"), 0644))
	require.NoError(t, os.Link(srcRoot+"/x/dirA/f", srcRoot+"/z/g"))
	require.NoError(t, os.Symlink(outside, srcRoot+"/y/dirA"))
	err := Copy(context.TODO(), srcRoot, "*/*", dstRoot, "out", AllowWildcards,
		func(ci *CopyInfo) { ci.AlwaysReplaceExistingDestPaths = true })
	t.Logf("err=%v", err)
	b, _ := os.ReadFile(dstRoot + "/out/g")
	fi1, _ := os.Stat(dstRoot + "/out/g")
	fi2, _ := os.Stat(outside + "/f")
	if fi1 != nil && fi2 != nil && os.SameFile(fi1, fi2) {
		t.Fatalf("out/g is a hard link to the outside file (%q)", b)
	}
}
