#!/usr/bin/env python3
# validates MANIFEST.json and evidence/*.json against the schemas in /root/.vp
import json, sys, glob
import jsonschema
ok = True
ms = json.load(open('/root/.vp/MANIFEST.schema.json'))
es = json.load(open('/root/.vp/EVIDENCE.schema.json'))
try:
    jsonschema.validate(json.load(open('/verif/MANIFEST.json')), ms); print('MANIFEST ok')
except Exception as e:
    ok = False; print('MANIFEST INVALID', str(e)[:500])
for f in sorted(glob.glob('/verif/evidence/*.json')):
    try:
        e = json.load(open(f)); jsonschema.validate(e, es)
        c = e['coverage']
        print(f, 'ok', e['level'], c.get('obligations'), c.get('discharged'), 'viol', e.get('violations'))
    except Exception as ex:
        ok = False; print(f, 'INVALID', str(ex)[:300])
sys.exit(0 if ok else 1)
