#!/bin/sh
# usage: tryseed.sh <patch.diff> <prop> [more govc args]  — applies a patch to /repo, runs the check, reverts the patch
P="$1"; shift; PROP="$1"; shift
git -C /repo apply "$P" || { echo "patch does not apply"; exit 9; }
/verif/bin/govc -repo /repo -verif /verif -prop "$PROP" "$@" 2>&1 | grep -E "VIOLATION|UNDECIDED|KNOWN|BROKEN|^govc:"
git -C /repo apply -R "$P"
