#!/usr/bin/env python3
# ./check --replay <path>: print a replay record; if it carries a generated Go test, run it again on /repo.
import json, os, subprocess, sys, tempfile, re
path = sys.argv[1]
r = json.load(open(path))
print("obligation :", r.get("obligation"))
print("contract   :", r.get("contract"), "(%s:%s)" % (r.get("contract_file"), r.get("contract_line")))
print("status     :", r.get("status"), "by", r.get("backend"))
print("model      :", json.dumps(r.get("model"))[:1500])
test = r.get("replay_test")
if not test:
    print("no executable replay for this obligation:", r.get("replay_note") or "see solver_output")
    print(r.get("solver_output", "")[:2000])
    sys.exit(1)
pkg = re.search(r"^package (\w+)", test, re.M).group(1)
pkgdir = {"fsutil": "/repo", "fs": "/repo/copy", "types": "/repo/types", "util": "/repo/util"}[pkg]
d = tempfile.mkdtemp(prefix="govc-replay-")
tf = os.path.join(d, "zz_govc_replay_test.go")
open(tf, "w").write(test)
ov = os.path.join(d, "ov.json")
json.dump({"Replace": {os.path.join(pkgdir, "zz_govc_replay_test.go"): tf}}, open(ov, "w"))
env = dict(os.environ, GOFLAGS="-mod=mod", GOPROXY="off", GOSUMDB="off", GOTOOLCHAIN="local")
p = subprocess.run(["go", "test", "-overlay", ov, "-vet=off", "-count=1", "-timeout", "60s", "-run", "^TestGovcReplay$", "."], cwd=pkgdir, env=env, capture_output=True, text=True)
print(p.stdout + p.stderr)
subprocess.run(["rm", "-rf", d])
sys.exit(1 if ("GOVC-REPLAY-VIOLATION" in p.stdout or "GOVC-REPLAY-PANIC" in p.stdout) else 0)
