#!/bin/sh
# Must-fail self-test: every patch in mutants/ (pre-fix versions of repaired defects,
# hand-made mutants) and - with --seeds - every confirmed seeded change under /verif/seeded
# must make the check of its property report a VIOLATION (the named obligation for mutants).
# Runs on a scratch copy of /repo, never on /repo itself.
# usage: run.sh [--prop Cxx] [--seeds] [substring-of-patch-name]
export GOFLAGS=-mod=mod GOPROXY=off GOSUMDB=off GOTOOLCHAIN=local
V=$(cd "$(dirname "$0")/.." && pwd)
PROP=""; SEEDS=0; ONLY=""
while [ $# -gt 0 ]; do
  case "$1" in --prop) PROP="$2"; shift 2;; --seeds) SEEDS=1; shift;; *) ONLY="$1"; shift;; esac
done
S=$(mktemp -d /var/tmp/govc-selftest-XXXXXX)
trap 'rm -rf "$S"' EXIT
run_one() { # <patchfile> <prop> <want-or-empty> <label>
  rm -rf "$S/repo"; cp -r /repo "$S/repo"; rm -rf "$S/repo/.git"
  if ! (cd "$S/repo" && patch -p1 -s < "$1"); then echo "SELFTEST-ERROR $4 does not apply"; echo x >> "$S/fail"; return; fi
  mkdir -p "$S/verif"; rm -rf "$S/verif/replays"; cp "$V/known_findings.json" "$V/properties.jsonl" "$S/verif/" 2>/dev/null; rm -rf "$S/verif/contracts"; cp -r "$V/contracts" "$S/verif/contracts"
  # a change to a function can only change the obligations of that function's own unit (callers use
  # its contract, not its body): only the units of the files the patch touches are re-verified here;
  # the full check of the property (all units) is what seeded/run_all.sh and the checks themselves run
  FILES=$(grep '^+++ b/' "$1" | sed 's|^+++ b/||' | tr '\n' ',' | sed 's/,$//')
  out=$("$V/bin/govc" -repo "$S/repo" -verif "$S/verif" -prop "$2" -files "$FILES" 2>&1)
  # (a change of a TYPE - a method removed, a field changed - can change a caller's verdict: when the
  # touched units report nothing, every unit of the property is run)
  if ! echo "$out" | grep -q "VIOLATION"; then out=$("$V/bin/govc" -repo "$S/repo" -verif "$S/verif" -prop "$2" 2>&1); fi
  out="$out
$(GOVC_REPO="$S/repo" GOVC_VERIF_OUT="$S/verif" "$V/standins/run.sh" "$2" quick "$S/extra.json" 2>&1)"
  echo run >> "$S/count"
  if [ -n "$3" ]; then
    if echo "$out" | grep "VIOLATION" | sed 's/[#$@]/_/g' | grep -q -- "$(echo "$3" | sed 's/[#$@]/_/g')"; then echo "selftest ok   $4 -> $3"; echo ok >> "$S/okcount"; else echo "SELFTEST-MISS $4 expected VIOLATION matching $3"; echo "$out" | grep -E "VIOLATION|UNDECIDED|^govc" | tail -3; echo x >> "$S/fail"; fi
  else
    if echo "$out" | grep -q "VIOLATION"; then echo "selftest ok   $4 -> $(echo "$out" | grep -c VIOLATION) violation(s)"; echo ok >> "$S/okcount";
    elif grep -q "^$(basename "$4")	" "$V/selftest/undecided_ok.txt" 2>/dev/null && echo "$out" | grep -q "^UNDECIDED"; then echo "selftest ok   $4 -> UNDECIDED (documented limit, selftest/undecided_ok.txt)"; echo ok >> "$S/okcount";
    else echo "SELFTEST-MISS $4 no VIOLATION for $2"; echo x >> "$S/fail"; fi
  fi
}
grep -v '^#' "$V/selftest/expect.tsv" | while IFS="$(printf '\t')" read -r patch prop want; do
  [ -z "$patch" ] && continue
  [ -n "$ONLY" ] && ! echo "$patch" | grep -q "$ONLY" && continue
  [ -n "$PROP" ] && [ "$prop" != "$PROP" ] && continue
  run_one "$V/selftest/mutants/$patch" "$prop" "$want" "$patch"
done
if [ $SEEDS -eq 1 ]; then
  for d in "$V"/seeded/C*[a-z]; do
    [ -f "$d/patch.diff" ] || continue
    b=$(basename "$d"); prop=${b%?}
    [ -n "$ONLY" ] && ! echo "$b" | grep -q "$ONLY" && continue
    [ -n "$PROP" ] && [ "$prop" != "$PROP" ] && continue
    run_one "$d/patch.diff" "$prop" "" "seeded/$b"
  done
fi
n=$(wc -l < "$S/count" 2>/dev/null || echo 0); k=$(wc -l < "$S/okcount" 2>/dev/null || echo 0)
echo "selftest: $k of $n must-fail changes reported"
[ -n "$SELFTEST_JSON" ] && echo "{\"selftest\": {\"must_fail_changes_run\": $n, \"reported_as_violation\": $k}}" > "$SELFTEST_JSON"
[ -f "$S/fail" ] && exit 1
exit 0
