#!/bin/sh
# Must-fail self-test: every patch in mutants/ (still compiling, passing the
# 119 tests) must make the named obligation fail. Runs on a scratch copy of
# /repo, never on /repo itself.
export GOFLAGS=-mod=mod GOPROXY=off GOSUMDB=off GOTOOLCHAIN=local
V=$(cd "$(dirname "$0")/.." && pwd)
ONLY="$1"
S=$(mktemp -d /var/tmp/govc-selftest-XXXXXX)
trap 'rm -rf "$S"' EXIT
fail=0; n=0
grep -v '^#' "$V/selftest/expect.tsv" | while IFS="$(printf '\t')" read -r patch prop want; do
  [ -z "$patch" ] && continue
  [ -n "$ONLY" ] && ! echo "$patch" | grep -q "$ONLY" && continue
  rm -rf "$S/repo"; cp -r /repo "$S/repo"; rm -rf "$S/repo/.git"
  if ! (cd "$S/repo" && patch -p1 -s < "$V/selftest/mutants/$patch"); then echo "SELFTEST-ERROR $patch does not apply"; echo x >> "$S/fail"; continue; fi
  mkdir -p "$S/verif"; rm -rf "$S/verif/replays"; cp "$V/known_findings.json" "$S/verif/" 2>/dev/null; rm -rf "$S/verif/contracts"; cp -r "$V/contracts" "$S/verif/contracts"
  out=$("$V/bin/govc" -repo "$S/repo" -verif "$S/verif" -prop "$prop" 2>&1)
  case "$want" in standin.*) out="$out
$(GOVC_REPO="$S/repo" GOVC_VERIF_OUT="$S/verif" "$V/standins/run.sh" "$prop" quick "$S/extra.json" 2>&1)";; esac
  if echo "$out" | grep "VIOLATION" | sed 's/[#$@]/_/g' | grep -q -- "$(echo "$want" | sed 's/[#$@]/_/g')"; then echo "selftest ok   $patch -> $want"; else echo "SELFTEST-MISS $patch expected VIOLATION matching $want"; echo "$out" | tail -3; echo x >> "$S/fail"; fi
done
[ -f "$S/fail" ] && exit 1
exit 0
