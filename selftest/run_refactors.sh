#!/bin/sh
# Must-pass corpus: behaviour-preserving edits must keep the checks at exit 0 without VIOLATION.
export GOFLAGS=-mod=mod GOPROXY=off GOSUMDB=off GOTOOLCHAIN=local
V=$(cd "$(dirname "$0")/.." && pwd)
S=$(mktemp -d /var/tmp/govc-refactor-XXXXXX)
trap 'rm -rf "$S"' EXIT
grep -v '^#' "$V/selftest/refactors.tsv" | while IFS="$(printf '\t')" read -r patch prop; do
  [ -z "$patch" ] && continue
  rm -rf "$S/repo"; cp -r /repo "$S/repo"; rm -rf "$S/repo/.git"
  (cd "$S/repo" && patch -p1 -s < "$V/selftest/refactors/$patch") || { echo "REFACTOR-ERROR $patch does not apply"; echo x >> "$S/fail"; continue; }
  (cd "$S/repo" && go build ./... ) || { echo "REFACTOR-ERROR $patch does not compile"; echo x >> "$S/fail"; continue; }
  mkdir -p "$S/verif"; cp "$V/known_findings.json" "$V/properties.jsonl" "$S/verif/"; rm -rf "$S/verif/contracts"; cp -r "$V/contracts" "$S/verif/contracts"
  out=$("$V/bin/govc" -repo "$S/repo" -verif "$S/verif" -prop "$prop" 2>&1); rc=$?
  if [ $rc -eq 0 ] && ! echo "$out" | grep -q VIOLATION; then echo "refactor ok   $patch ($prop)"; else echo "REFACTOR-ALARM $patch ($prop) rc=$rc"; echo "$out" | grep -E "VIOLATION|UNDECIDED" | head -3; echo x >> "$S/fail"; fi
done
[ -f "$S/fail" ] && exit 1
exit 0
