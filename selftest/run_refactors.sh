#!/bin/sh
# Must-pass corpus: behaviour-preserving edits must keep the checks at exit 0 without VIOLATION.
export GOFLAGS=-mod=mod GOPROXY=off GOSUMDB=off GOTOOLCHAIN=local
V=$(cd "$(dirname "$0")/.." && pwd)
S=$(mktemp -d /var/tmp/govc-refactor-XXXXXX)
trap 'rm -rf "$S"' EXIT
# third column "undecided-ok": a documented limit of annotation-based verification - the refactor moves code a
# contract is attached to (a closure under contract into a new helper): the check may answer UNDECIDED
# (exit 2) but must not print a VIOLATION line
grep -v '^#' "$V/selftest/refactors.tsv" | while IFS="$(printf '\t')" read -r patch prop limit; do
  [ -z "$patch" ] && continue
  rm -rf "$S/repo"; cp -r /repo "$S/repo"; rm -rf "$S/repo/.git"
  (cd "$S/repo" && patch -p1 -s < "$V/selftest/refactors/$patch") || { echo "REFACTOR-ERROR $patch does not apply"; echo x >> "$S/fail"; continue; }
  (cd "$S/repo" && go build ./... ) || { echo "REFACTOR-ERROR $patch does not compile"; echo x >> "$S/fail"; continue; }
  mkdir -p "$S/verif"; cp "$V/known_findings.json" "$V/properties.jsonl" "$S/verif/"; rm -rf "$S/verif/contracts"; cp -r "$V/contracts" "$S/verif/contracts"
  # only the units of the files the refactor touches are re-verified (a caller uses the contract of a
  # callee, not its body: no other unit can change its verdict)
  FILES=$(grep '^+++ b/' "$V/selftest/refactors/$patch" | sed 's|^+++ b/||' | tr '\n' ',' | sed 's/,$//')
  out=$("$V/bin/govc" -repo "$S/repo" -verif "$S/verif" -prop "$prop" -files "$FILES" 2>&1); rc=$?
  if [ "$limit" = "known-false-alarm" ]; then echo "refactor KNOWN-FALSE-ALARM $patch ($prop) rc=$rc: documented limit (DESIGN 15.6b), not counted";
  elif [ "$limit" = "undecided-ok" ] && [ $rc -eq 2 ] && ! echo "$out" | grep -q VIOLATION; then echo "refactor ok   $patch ($prop) [UNDECIDED, documented limit]";
  elif [ $rc -eq 0 ] && ! echo "$out" | grep -q VIOLATION; then echo "refactor ok   $patch ($prop)"; else echo "REFACTOR-ALARM $patch ($prop) rc=$rc"; echo "$out" | grep -E "VIOLATION|UNDECIDED" | head -3; echo x >> "$S/fail"; fi
done
[ -f "$S/fail" ] && exit 1
exit 0
