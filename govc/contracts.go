package main

// Contract file reader. Contracts live in comment-only Go files
// (/repo/**/contracts_verif.go, build tag verif) and in
// /verif/contracts/*.contracts for external (assumed) contracts.
// Only lines starting with "//@" are read.

import (
	"bufio"
	"fmt"
	"os"
	"regexp"
	"strconv"
	"strings"
)

type Clause struct {
	Uses  []string // lemmas assumed only for the obligations of this clause
	Label string
	Src   string
	E     Expr
	File  string
	Line  int
}

// ChanInv: an invariant of every value sent on a channel of the given element type, named by a
// predicate of one parameter: an obligation at each send in a function under contract, a fact
// about each received value.
type ChanInv struct {
	Elem TypeExpr
	Pred string
	Src  string
	File string
	Line int
}

type LoopSpec struct {
	Invariants []Clause
	Decreases  *Clause
}

type ParamDecl struct {
	Name string
	T    *TypeExpr // may be nil (types taken from the Go signature)
}

type EffectUse struct {
	Name string
	Args []Expr
	When Expr // optional condition
	Post bool // evaluated in the post-state (may mention results)
}

// FuncContract is the contract of one function (in-repo, verified) or of an
// external/callback/interface method (assumed).
type FuncContract struct {
	Kind     string // "func" (verified), "extern", "callback", "method"
	Name     string // e.g. "ComparePath", "Validator.HandleChange", "doubleWalkDiff$3", "os.Lchown", "DiskWriterOpt.NotifyCb", "os.FileInfo.IsDir"
	Pkg      string // package path of the contract file (for in-repo funcs)
	Params   []ParamDecl
	Results  []ParamDecl
	Props    []string
	Mode     string // "int" or "bv"
	Safety   map[string]bool
	Requires []Clause
	Ensures  []Clause
	Loops    map[int]*LoopSpec
	Modifies []string // raw modifies items
	Effects  []string // effect names this function may emit ("*" = any)
	EmitsEff []EffectUse
	Uses     []string // lemma names assumed
	Inline   bool
	Pure     bool
	Trusted  bool // body not verified (assumed contract on an in-repo function) — listed
	NoHavoc  bool // extern: does not modify anything reachable from args
	Asserts  []AssertAt
	Private  []string
	Unroll   int
	Opaque   []string
	Lemmas   []string // lemmas made available for clause-level use
	Houdini  bool
	Invokes  []string // extern: parameters that are function values the callee may call (any number of times)
	Notes    []string
	File     string
	Line     int
}

// AssertAt is an obligation attached to a call site inside a function:
// "at call NAME [#k]: expr" evaluated just before the k-th call of NAME.
type AssertAt struct {
	Callee string
	Index  int // -1 = every call
	After  bool
	C      Clause
}

type PredDecl struct {
	Name     string
	Params   []QVar
	Result   TypeExpr
	Body     Expr
	Src      string
	Rec      bool
	Uninterp bool // declared without a body
	File     string
	Line     int
	Pkg      string
}

type GhostDecl struct {
	Name string
	T    TypeExpr
}

type EffectDecl struct {
	Name   string
	Params []QVar
}

type LemmaDecl struct {
	Name  string
	Props []string
	Mode  string
	C     Clause
	Uses  []string
	Pkg   string
	Axiom bool
}

type Contracts struct {
	Funcs      map[string]*FuncContract // key: pkgpath + "." + name for in-repo; name for extern
	Preds      map[string]*PredDecl
	Ghosts     map[string]*GhostDecl
	Effects    map[string]*EffectDecl
	Lemmas     map[string]*LemmaDecl
	ChanInvs   []*ChanInv
	Order      []string // function keys in file order
	LemmaOrder []string
	Files      []string
}

func NewContracts() *Contracts {
	return &Contracts{Funcs: map[string]*FuncContract{}, Preds: map[string]*PredDecl{}, Ghosts: map[string]*GhostDecl{},
		Effects: map[string]*EffectDecl{}, Lemmas: map[string]*LemmaDecl{}}
}

var labelRe = regexp.MustCompile(`^([A-Za-z_][A-Za-z0-9_.]*(?:\{[A-Za-z0-9_, ]*\})?):\s+(.*)$`)

func splitLabel(s string) (string, string) {
	if m := labelRe.FindStringSubmatch(s); m != nil {
		return m[1], m[2]
	}
	return "", s
}

func (cs *Contracts) ReadFile(path, pkgPath string) error {
	f, err := os.Open(path)
	if err != nil {
		return err
	}
	defer f.Close()
	cs.Files = append(cs.Files, path)
	sc := bufio.NewScanner(f)
	sc.Buffer(make([]byte, 1<<20), 1<<20)
	type rawLine struct {
		text string
		line int
	}
	var lines []rawLine
	ln := 0
	for sc.Scan() {
		ln++
		t := strings.TrimSpace(sc.Text())
		if !strings.HasPrefix(t, "//@") {
			continue
		}
		t = strings.TrimSpace(t[3:])
		if t == "" || strings.HasPrefix(t, "--") {
			continue
		}
		if strings.HasPrefix(t, "|") && len(lines) > 0 {
			lines[len(lines)-1].text += " " + strings.TrimSpace(t[1:])
			continue
		}
		lines = append(lines, rawLine{t, ln})
	}
	var cur *FuncContract
	var curLemma *LemmaDecl
	mkClause := func(src string, line int) (Clause, error) {
		label, rest := splitLabel(src)
		var uses []string
		if i := strings.Index(label, "{"); i >= 0 {
			for _, u := range strings.Split(strings.Trim(label[i:], "{}"), ",") {
				if u = strings.TrimSpace(u); u != "" {
					uses = append(uses, u)
				}
			}
			label = label[:i]
		}
		e, err := ParseExpr(rest)
		if err != nil {
			return Clause{}, fmt.Errorf("%s:%d: %v", path, line, err)
		}
		return Clause{Label: label, Uses: uses, Src: rest, E: e, File: path, Line: line}, nil
	}
	for _, rl := range lines {
		t := rl.text
		word, rest := t, ""
		if i := strings.IndexAny(t, " \t"); i >= 0 {
			word, rest = t[:i], strings.TrimSpace(t[i+1:])
		}
		fail := func(f string, a ...interface{}) error {
			return fmt.Errorf("%s:%d: %s", path, rl.line, fmt.Sprintf(f, a...))
		}
		switch word {
		case "pred":
			pd, err := parsePred(rest)
			if err != nil {
				return fail("%v", err)
			}
			pd.File, pd.Line, pd.Pkg = path, rl.line, pkgPath
			cs.Preds[pd.Name] = pd
			cur, curLemma = nil, nil
		case "ghost":
			parts := strings.SplitN(rest, " ", 2)
			if len(parts) != 2 {
				return fail("ghost NAME TYPE")
			}
			ty, err := ParseType(strings.TrimSpace(parts[1]))
			if err != nil {
				return fail("%v", err)
			}
			cs.Ghosts[parts[0]] = &GhostDecl{parts[0], ty}
			cur, curLemma = nil, nil
		case "effect":
			if cur != nil && !strings.Contains(rest, " ") && !strings.Contains(rest, "(") {
				return fail("effect use needs arguments")
			}
			if cur != nil {
				// effect use inside extern/callback: effect NAME(args) [when cond]
				eu, err := parseEffectUse(rest)
				if err != nil {
					return fail("%v", err)
				}
				cur.EmitsEff = append(cur.EmitsEff, eu)
				continue
			}
			ed, err := parseEffectDecl(rest)
			if err != nil {
				return fail("%v", err)
			}
			cs.Effects[ed.Name] = ed
		case "posteffect":
			if cur == nil {
				return fail("posteffect outside a contract")
			}
			eu, err := parseEffectUse(rest)
			if err != nil {
				return fail("%v", err)
			}
			eu.Post = true
			cur.EmitsEff = append(cur.EmitsEff, eu)
		case "chaninv":
			parts := strings.Fields(rest)
			if len(parts) != 2 {
				return fail("chaninv ELEMTYPE PRED")
			}
			ty, err := ParseType(parts[0])
			if err != nil {
				return fail("%v", err)
			}
			cs.ChanInvs = append(cs.ChanInvs, &ChanInv{Elem: ty, Pred: parts[1], Src: rest, File: path, Line: rl.line})
			cur, curLemma = nil, nil
		case "effectdecl":
			ed, err := parseEffectDecl(rest)
			if err != nil {
				return fail("%v", err)
			}
			cs.Effects[ed.Name] = ed
			cur, curLemma = nil, nil
		case "lemma", "axiom":
			// lemma NAME [C12 C09]: expr
			i := strings.Index(rest, ":")
			if i < 0 {
				return fail("lemma NAME: expr")
			}
			head := strings.Fields(rest[:i])
			e, err := ParseExpr(rest[i+1:])
			if err != nil {
				return fail("%v", err)
			}
			l := &LemmaDecl{Axiom: word == "axiom", Name: head[0], Props: head[1:], C: Clause{Label: head[0], Src: rest[i+1:], E: e, File: path, Line: rl.line}, Pkg: pkgPath, Mode: "int"}
			cs.Lemmas[l.Name] = l
			cs.LemmaOrder = append(cs.LemmaOrder, l.Name)
			cur, curLemma = nil, l
		case "func", "extern", "callback", "method":
			fc, err := parseFuncHead(word, rest)
			if err != nil {
				return fail("%v", err)
			}
			fc.File, fc.Line, fc.Pkg = path, rl.line, pkgPath
			key := fc.Name
			if word == "func" {
				key = pkgPath + "." + fc.Name
			}
			if _, dup := cs.Funcs[key]; dup {
				return fail("duplicate contract for %s", key)
			}
			cs.Funcs[key] = fc
			cs.Order = append(cs.Order, key)
			cur, curLemma = fc, nil
		default:
			if curLemma != nil {
				switch word {
				case "use":
					curLemma.Uses = append(curLemma.Uses, strings.Fields(rest)...)
				case "mode":
					curLemma.Mode = rest
				case "property":
					curLemma.Props = append(curLemma.Props, strings.Fields(rest)...)
				default:
					return fail("unknown lemma clause %q", word)
				}
				continue
			}
			if cur == nil {
				return fail("clause %q outside a function block", word)
			}
			switch word {
			case "property":
				cur.Props = append(cur.Props, strings.Fields(strings.ReplaceAll(rest, ",", " "))...)
			case "mode":
				if rest != "int" && rest != "bv" {
					return fail("mode int|bv")
				}
				cur.Mode = rest
			case "safety":
				for _, w := range strings.Fields(rest) {
					if strings.HasPrefix(w, "+") {
						cur.Safety[w[1:]] = true
					} else if strings.HasPrefix(w, "-") {
						cur.Safety[w[1:]] = false
					} else {
						return fail("safety +kind/-kind")
					}
				}
			case "requires":
				c, err := mkClause(rest, rl.line)
				if err != nil {
					return err
				}
				cur.Requires = append(cur.Requires, c)
			case "ensures":
				c, err := mkClause(rest, rl.line)
				if err != nil {
					return err
				}
				cur.Ensures = append(cur.Ensures, c)
			case "modifies":
				depth, start := 0, 0
				for i := 0; i <= len(rest); i++ {
					if i < len(rest) && (rest[i] == '(' || rest[i] == '[') {
						depth++
					} else if i < len(rest) && (rest[i] == ')' || rest[i] == ']') {
						depth--
					}
					if i == len(rest) || (rest[i] == ',' && depth == 0) {
						if it := strings.TrimSpace(rest[start:i]); it != "" {
							cur.Modifies = append(cur.Modifies, it)
						}
						start = i + 1
					}
				}
			case "effects":
				cur.Effects = append(cur.Effects, strings.Fields(strings.ReplaceAll(rest, ",", " "))...)
			case "use":
				cur.Uses = append(cur.Uses, strings.Fields(rest)...)
			case "inline":
				cur.Inline = true
			case "pure":
				cur.Pure = true
			case "trusted":
				cur.Trusted = true
				if rest != "" {
					cur.Notes = append(cur.Notes, rest)
				}
			case "nohavoc":
				cur.NoHavoc = true
			case "houdini":
				cur.Houdini = true
			case "invokes":
				cur.Invokes = append(cur.Invokes, strings.Fields(rest)...)
			case "lemmas":
				cur.Lemmas = append(cur.Lemmas, strings.Fields(rest)...)
			case "opaque":
				cur.Opaque = append(cur.Opaque, strings.Fields(rest)...)
			case "private":
				cur.Private = append(cur.Private, strings.Fields(rest)...)
			case "unroll":
				n, err := strconv.Atoi(rest)
				if err != nil {
					return fail("unroll N")
				}
				cur.Unroll = n
			case "note":
				cur.Notes = append(cur.Notes, rest)
			case "loop":
				parts := strings.SplitN(rest, " ", 3)
				if len(parts) < 3 {
					return fail("loop N invariant|decreases expr")
				}
				n, err := strconv.Atoi(parts[0])
				if err != nil {
					return fail("loop index: %v", err)
				}
				ls := cur.Loops[n]
				if ls == nil {
					ls = &LoopSpec{}
					cur.Loops[n] = ls
				}
				c, err := mkClause(parts[2], rl.line)
				if err != nil {
					return err
				}
				switch parts[1] {
				case "invariant":
					ls.Invariants = append(ls.Invariants, c)
				case "decreases":
					ls.Decreases = &c
				default:
					return fail("loop N invariant|decreases")
				}
			case "at":
				// at call NAME[#k] [after]: expr
				i := strings.Index(rest, ":")
				if i < 0 {
					return fail("at call NAME[#k]: expr")
				}
				hd := strings.Fields(rest[:i])
				if len(hd) < 2 || hd[0] != "call" {
					return fail("at call NAME[#k]: expr")
				}
				callee, idx := hd[1], -1
				if j := strings.Index(callee, "#"); j >= 0 {
					idx, err = strconv.Atoi(callee[j+1:])
					if err != nil {
						return fail("bad call index")
					}
					callee = callee[:j]
				}
				after := len(hd) > 2 && hd[2] == "after"
				c, err := mkClause(strings.TrimSpace(rest[i+1:]), rl.line)
				if err != nil {
					return err
				}
				cur.Asserts = append(cur.Asserts, AssertAt{Callee: callee, Index: idx, After: after, C: c})
			default:
				return fail("unknown clause %q", word)
			}
		}
	}
	return sc.Err()
}

var headRe = regexp.MustCompile(`^([^\s(]+)\s*(?:\(([^)]*)\))?\s*(?:\(([^)]*)\))?\s*$`)

func parseFuncHead(kind, rest string) (*FuncContract, error) {
	m := headRe.FindStringSubmatch(rest)
	if m == nil {
		return nil, fmt.Errorf("bad %s head %q", kind, rest)
	}
	fc := &FuncContract{Kind: kind, Name: m[1], Safety: map[string]bool{}, Loops: map[int]*LoopSpec{}}
	split := func(s string) []ParamDecl {
		var out []ParamDecl
		for _, p := range strings.Split(s, ",") {
			p = strings.TrimSpace(p)
			if p == "" {
				continue
			}
			out = append(out, ParamDecl{Name: strings.Fields(p)[0]})
		}
		return out
	}
	fc.Params = split(m[2])
	fc.Results = split(m[3])
	return fc, nil
}

func parseEffectDecl(s string) (*EffectDecl, error) {
	i := strings.Index(s, "(")
	j := strings.LastIndex(s, ")")
	if i < 0 || j < i {
		return nil, fmt.Errorf("effect NAME(a T, ...)")
	}
	ed := &EffectDecl{Name: strings.TrimSpace(s[:i])}
	for _, p := range strings.Split(s[i+1:j], ",") {
		p = strings.TrimSpace(p)
		if p == "" {
			continue
		}
		parts := strings.SplitN(p, " ", 2)
		if len(parts) != 2 {
			return nil, fmt.Errorf("effect parameter needs a type: %q", p)
		}
		ty, err := ParseType(strings.TrimSpace(parts[1]))
		if err != nil {
			return nil, err
		}
		ed.Params = append(ed.Params, QVar{parts[0], ty})
	}
	return ed, nil
}

func parseEffectUse(s string) (EffectUse, error) {
	var when Expr
	if i := strings.Index(s, " when "); i >= 0 {
		w, err := ParseExpr(s[i+6:])
		if err != nil {
			return EffectUse{}, err
		}
		when = w
		s = s[:i]
	}
	e, err := ParseExpr(s)
	if err != nil {
		return EffectUse{}, err
	}
	switch c := e.(type) {
	case ECall:
		id, ok := c.Fun.(EIdent)
		if !ok {
			return EffectUse{}, fmt.Errorf("effect NAME(args)")
		}
		return EffectUse{Name: id.Name, Args: c.Args, When: when}, nil
	case EIdent:
		return EffectUse{Name: c.Name, When: when}, nil
	}
	return EffectUse{}, fmt.Errorf("effect NAME(args)")
}

func parsePred(s string) (*PredDecl, error) {
	// NAME(a T, b U) R = expr
	i := strings.Index(s, "(")
	if i < 0 {
		return nil, fmt.Errorf("pred NAME(params) R = expr")
	}
	depth, j := 0, i
	for ; j < len(s); j++ {
		if s[j] == '(' {
			depth++
		} else if s[j] == ')' {
			depth--
			if depth == 0 {
				break
			}
		}
	}
	eq := strings.Index(s[j:], "=")
	uninterp := false
	if eq < 0 {
		// no body: an uninterpreted spec function (only assumed contracts and axioms say anything about it)
		uninterp = true
		eq = len(s) - j
	}
	pd := &PredDecl{Name: strings.TrimSpace(s[:i]), Uninterp: uninterp}
	for _, p := range strings.Split(s[i+1:j], ",") {
		p = strings.TrimSpace(p)
		if p == "" {
			continue
		}
		parts := strings.SplitN(p, " ", 2)
		if len(parts) != 2 {
			return nil, fmt.Errorf("pred parameter needs a type: %q", p)
		}
		ty, err := ParseType(strings.TrimSpace(parts[1]))
		if err != nil {
			return nil, err
		}
		pd.Params = append(pd.Params, QVar{parts[0], ty})
	}
	rt := strings.TrimSpace(s[j+1 : j+eq])
	if rt == "" {
		rt = "bool"
	}
	ty, err := ParseType(rt)
	if err != nil {
		return nil, err
	}
	pd.Result = ty
	if uninterp {
		return pd, nil
	}
	pd.Src = strings.TrimSpace(s[j+eq+1:])
	e, err := ParseExpr(pd.Src)
	if err != nil {
		return nil, err
	}
	pd.Body = e
	pd.Rec = exprMentionsCall(e, pd.Name)
	return pd, nil
}

func exprMentionsCall(e Expr, name string) bool {
	found := false
	walkExpr(e, func(x Expr) {
		if c, ok := x.(ECall); ok {
			if id, ok := c.Fun.(EIdent); ok && id.Name == name {
				found = true
			}
		}
	})
	return found
}

func walkExpr(e Expr, f func(Expr)) {
	if e == nil {
		return
	}
	f(e)
	switch x := e.(type) {
	case EUnary:
		walkExpr(x.X, f)
	case EBinary:
		walkExpr(x.X, f)
		walkExpr(x.Y, f)
	case ESel:
		walkExpr(x.X, f)
	case EIndex:
		walkExpr(x.X, f)
		walkExpr(x.I, f)
	case ESlice:
		walkExpr(x.X, f)
		walkExpr(x.Lo, f)
		walkExpr(x.Hi, f)
	case ECall:
		walkExpr(x.Fun, f)
		for _, a := range x.Args {
			walkExpr(a, f)
		}
	case EQuant:
		walkExpr(x.Body, f)
	}
}
