package main

// Symbolic program state: a persistent map from state-variable names (heaps,
// local cells, ghost variables, effect counters, allocation counter, clock)
// to SMT terms. States are immutable snapshots; new states are overlays.
//
// A state variable that was never written has, in a root state, the value of
// an entry constant NAME@0. Loop headers and calls that havoc produce havoc
// nodes; join points produce merge nodes whose values are built lazily.

import (
	"fmt"
	"go/types"
	"strings"
)

type mergeIn struct {
	guard string
	st    *State
}

type State struct {
	vc     *VC
	id     int
	parent *State
	vars   map[string]string
	// merge node
	merge []mergeIn
	// havoc node
	havocAllHeaps bool
	havocAllGhost bool
	havocSet      map[string]bool
	havocTag      string
	havocFields   map[string]map[int]bool // heaps of which only these fields may have changed (objects existing before)
	root          bool
	cache         map[string]string
}

var stateCounter int

func (vc *VC) rootState() *State {
	stateCounter++
	return &State{vc: vc, id: stateCounter, root: true, vars: map[string]string{}, cache: map[string]string{}}
}

func (s *State) overlay() *State {
	stateCounter++
	return &State{vc: s.vc, id: stateCounter, parent: s, vars: map[string]string{}, cache: map[string]string{}}
}

// set returns a new state with name bound to term.
func (s *State) set(name, term string) *State {
	n := s.overlay()
	n.vars[name] = term
	return n
}

func isHeapVar(name string) bool {
	return strings.HasPrefix(name, "H_") || strings.HasPrefix(name, "HA_") || strings.HasPrefix(name, "HM_") || strings.HasPrefix(name, "G_")
}

func isGhostVar(name string) bool {
	return strings.HasPrefix(name, "GH_") || strings.HasPrefix(name, "E_") || name == "CLK"
}

// havoc returns a state in which the given variables (and optionally all
// heaps / all ghost variables) have fresh unconstrained values.
func (s *State) havoc(tag string, names map[string]bool, allHeaps, allGhost bool) *State {
	stateCounter++
	return &State{vc: s.vc, id: stateCounter, parent: s, vars: map[string]string{}, cache: map[string]string{},
		havocSet: names, havocAllHeaps: allHeaps, havocAllGhost: allGhost, havocTag: tag}
}

func mergeStates(vc *VC, ins []mergeIn) *State {
	if len(ins) == 1 {
		return ins[0].st
	}
	same := true
	for _, in := range ins[1:] {
		if in.st != ins[0].st {
			same = false
		}
	}
	if same {
		return ins[0].st
	}
	stateCounter++
	return &State{vc: vc, id: stateCounter, merge: ins, vars: map[string]string{}, cache: map[string]string{}}
}

// sortOfVar is provided by the VC: the SMT sort of a state variable.
func (s *State) get(name string) string {
	if t, ok := s.vars[name]; ok {
		return t
	}
	if t, ok := s.cache[name]; ok {
		return t
	}
	var t string
	switch {
	case s.root:
		t = s.vc.entryConst(name)
	case s.merge != nil:
		terms := make([]string, len(s.merge))
		allSame := true
		for i, in := range s.merge {
			terms[i] = in.st.get(name)
			if terms[i] != terms[0] {
				allSame = false
			}
		}
		if allSame {
			t = terms[0]
		} else {
			t = s.vc.freshConst("m_"+name, s.vc.stateVarSort(name))
			for i, in := range s.merge {
				s.vc.assume(implies(in.guard, eq(t, terms[i])))
			}
		}
	case s.havocTag != "":
		hit := s.havocSet[name] || (s.havocAllHeaps && isHeapVar(name)) || (s.havocAllGhost && isGhostVar(name))
		if hit {
			t = s.vc.freshConst("hv_"+s.havocTag+"_"+name, s.vc.stateVarSort(name))
			s.vc.havocFacts(name, s.parent.get(name), t)
			if fs, ok := s.havocFields[name]; ok {
				s.vc.fieldFrame(name, s.parent.get(name), t, s.parent.get(s.vc.nextVar()), fs)
			}
			if strings.HasPrefix(name, "E_") && !strings.HasSuffix(name, "_cnt") {
				// ghost facts every effect record satisfies: the last-emission time lies between the old
				// clock and the new clock iff the count grew; with an unchanged count the record is unchanged
				s.cache[name] = t
				i := strings.LastIndex(name, "_")
				cnt := name[:i] + "_cnt"
				if _, ok := s.vc.svSorts[cnt]; ok {
					cn, co := s.get(cnt), s.parent.get(cnt)
					s.vc.assume(implies(eq(cn, co), eq(t, s.parent.get(name))))
					if strings.HasSuffix(name, "_t") {
						s.vc.assume(fmt.Sprintf("(<= %s %s)", t, s.get("CLK")))
						s.vc.assume(fmt.Sprintf("(<= %s %s)", s.parent.get(name), t))
						s.vc.assume(implies(fmt.Sprintf("(> %s %s)", cn, co), fmt.Sprintf("(> %s %s)", t, s.parent.get("CLK"))))
					}
				}
			}
		} else {
			t = s.parent.get(name)
		}
	default:
		t = s.parent.get(name)
	}
	s.cache[name] = t
	return t
}

// state variable registry -----------------------------------------------

func (vc *VC) regStateVar(name, sort string) {
	if old, ok := vc.svSorts[name]; ok && old != sort {
		panic(fmt.Sprintf("state var %s registered with sorts %s and %s", name, old, sort))
	}
	vc.svSorts[name] = sort
}

func (vc *VC) stateVarSort(name string) string {
	s, ok := vc.svSorts[name]
	if !ok {
		panic("unregistered state variable " + name)
	}
	return s
}

func (vc *VC) entryConst(name string) string {
	c := name + "@0"
	vc.declConst(c, vc.stateVarSort(name))
	if name == "NEXT" {
		vc.assume("(< 0 NEXT@0)")
	}
	if strings.HasPrefix(name, "E_") && strings.HasSuffix(name, "_t") {
		vc.simpleVar("CLK", "Int")
		vc.declConst("CLK@0", "Int")
		vc.assume(fmt.Sprintf("(<= %s CLK@0)", c))
	}
	return c
}

// havocFacts: monotonicity facts that survive havoc of ghost counters.
func (vc *VC) havocFacts(name, old, new string) {
	switch {
	case name == "CLK" || name == "NEXT" || (strings.HasPrefix(name, "E_") && strings.HasSuffix(name, "_cnt")):
		vc.assume(fmt.Sprintf("(<= %s %s)", old, new))
	}
}

// fieldFrame: inside the loop only the listed fields of objects of this heap are
// written (through field paths); every other field of every object that existed
// before the loop is unchanged.
func (vc *VC) fieldFrame(hv, h0, h1, next string, written map[int]bool) {
	var t types.Type
	for tt, name := range vc.heapTypes {
		if name == hv {
			t = tt
		}
	}
	if t == nil {
		return
	}
	st, ok := t.Underlying().(*types.Struct)
	if !ok {
		return
	}
	var conj []string
	for i := 0; i < st.NumFields(); i++ {
		if written[i] {
			continue
		}
		conj = append(conj, eq(fmt.Sprintf("(%s (select %s a))", vc.fieldAcc(t, i), h1), fmt.Sprintf("(%s (select %s a))", vc.fieldAcc(t, i), h0)))
	}
	if len(conj) == 0 {
		return
	}
	vc.assume(fmt.Sprintf("(forall ((a Int)) (! (=> (and (< 0 a) (< a %s)) %s) :pattern ((select %s a))))", next, and(conj...), h1))
}
