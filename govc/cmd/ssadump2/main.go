package main

import (
	"fmt"
	"os"
	"strings"

	"golang.org/x/tools/go/packages"
	"golang.org/x/tools/go/ssa"
	"golang.org/x/tools/go/ssa/ssautil"
)

func main() {
	cfg := &packages.Config{Mode: packages.LoadAllSyntax, Dir: "/repo", BuildFlags: []string{"-tags=verif"}}
	pkgs, err := packages.Load(cfg, "./...")
	if err != nil {
		panic(err)
	}
	prog, spkgs := ssautil.AllPackages(pkgs, ssa.InstantiateGenerics|ssa.GlobalDebug)
	prog.Build()
	_ = spkgs
	want := os.Args[1:]
	for fn := range ssautil.AllFunctions(prog) {
		name := fn.String()
		for _, w := range want {
			if strings.Contains(name, w) {
				fmt.Println("=====", name)
				fn.WriteTo(os.Stdout)
			}
		}
	}
}
