package main

// Automatic invariants for loops.
//  - range loops over slices/arrays: the hidden index satisfies -1 <= idx
//    (assumed at the header, checked on entry and on every back edge).
// A Houdini-style inference for the generated decoders is layered on top of
// this in inferAndTranslate.

import (
	"fmt"
	"go/token"
	"go/types"
	"sort"
	"strings"

	"golang.org/x/tools/go/ssa"
)

// houdiniState: candidate invariants "0 <= x" for the signed integer phis of
// every loop header of one function; dead candidates were refuted in an
// earlier round. Re-inferred from scratch on every run.
type houdiniState struct {
	dead  map[string]bool
	seen  map[string]bool
	round int
}

func houdiniKey(li *loopInfo, phi *ssa.Phi) string {
	return fmt.Sprintf("%d:%s", li.ordinal, phi.Name())
}

func (eng *Engine) houdiniCands(fr *Frame, li *loopInfo, phiEnv map[*ssa.Phi]string) (names []string, terms []string) {
	hs := eng.houdini[fr.vc.unit]
	if hs == nil || fr.parent != nil {
		return nil, nil
	}
	vc := fr.vc
	for _, in := range li.header.Instrs {
		phi, ok := in.(*ssa.Phi)
		if !ok {
			break
		}
		_, signed, isInt := intInfo(phi.Type())
		if !isInt || !signed || phi.Comment == "rangeindex" {
			continue
		}
		k := houdiniKey(li, phi)
		hs.seen[k] = true
		if hs.dead[k] {
			continue
		}
		var t string
		if v, ok := phiEnv[phi]; ok {
			t = v
		} else {
			t = fr.val(phi)
		}
		names = append(names, k)
		terms = append(terms, vc.leInt(vc.intLitN(0, phi.Type()), t))
	}
	return
}

func (eng *Engine) autoInvs(fr *Frame, li *loopInfo, phiEnv map[*ssa.Phi]string) []string {
	var out []string
	vc := fr.vc
	for _, in := range li.header.Instrs {
		phi, ok := in.(*ssa.Phi)
		if !ok {
			break
		}
		if phi.Comment == "rangeindex" {
			var t string
			if v, ok := phiEnv[phi]; ok {
				t = v
			} else {
				t = fr.val(phi)
			}
			out = append(out, vc.leInt(vc.intLitN(-1, types.Typ[types.Int]), t))
		}
	}
	return out
}

// frameInvs: the function's frame condition as an automatic loop invariant for
// every heap variable the loop writes (so that "nothing else changed" survives the loop).
func (eng *Engine) frameInvs(fr *Frame, li *loopInfo, st *State) []string {
	if fr.parent != nil || fr.fc == nil || fr.entry == nil {
		return nil
	}
	allow, free, ok := fr.frameAllow(fr.entry)
	if !ok {
		return nil
	}
	ws := fr.loopWrites(li)
	if ws.allHeaps {
		return nil
	}
	var names []string
	for n := range ws.names {
		if isHeapVar(n) && !free[n] && !strings.HasPrefix(n, "G_") {
			names = append(names, n)
		}
	}
	sort.Strings(names)
	var out []string
	for _, hv := range names {
		f := fr.frameFormula(hv, allow, fr.entry, st.get(hv))
		if f != "true" {
			out = append(out, f)
		}
	}
	return out
}

func (eng *Engine) inferredInv(fr *Frame, li *loopInfo, st *State, phiEnv map[*ssa.Phi]string) []string {
	_, hc := eng.houdiniCands(fr, li, phiEnv)
	return append(append(eng.autoInvs(fr, li, phiEnv), eng.frameInvs(fr, li, st)...), hc...)
}

func (eng *Engine) inferredCheck(fr *Frame, li *loopInfo, st *State, g string, env map[*ssa.Phi]string, phase string) {
	for k, t := range eng.frameInvs(fr, li, st) {
		suffix := ""
		if phase == "keep" {
			suffix = fmt.Sprintf(".b%d", fr.top().curBlk)
		}
		fr.vc.addObl(&Obligation{Name: fmt.Sprintf("%s#loop%d.frameinv.%d.%s%s", fr.vc.unit, li.ordinal, k, phase, suffix), Kind: "inv." + phase,
			Props: fr.props(), Guard: g, Goal: t, Src: "frame condition as loop invariant (automatic)", Pos: fr.vc.eng.pos(token.NoPos)})
	}
	hn, ht := eng.houdiniCands(fr, li, env)
	for i, t := range ht {
		suffix := ""
		if phase == "keep" {
			suffix = fmt.Sprintf(".b%d", fr.top().curBlk)
		}
		fr.vc.addObl(&Obligation{Name: fmt.Sprintf("%s#loop%d.inferred.%s.%s%s", fr.vc.unit, li.ordinal, strings.ReplaceAll(hn[i], ":", "_"), phase, suffix), Kind: "houdini." + phase,
			Props: fr.props(), Guard: g, Goal: t, Src: "inferred invariant 0 <= " + hn[i] + " (Houdini, re-inferred on every run)", Pos: fr.vc.eng.pos(token.NoPos), hkey: hn[i]})
	}
	for k, t := range eng.autoInvs(fr, li, env) {
		suffix := ""
		if phase == "keep" {
			suffix = fmt.Sprintf(".b%d", fr.top().curBlk)
		}
		fr.vc.addObl(&Obligation{Name: fmt.Sprintf("%s#loop%d.autoinv.%d.%s%s", fr.vc.unit, li.ordinal, k, phase, suffix), Kind: "inv." + phase,
			Props: fr.props(), Guard: g, Goal: t, Src: "range index >= -1 (automatic)", Pos: fr.vc.eng.pos(token.NoPos)})
	}
}

func (eng *Engine) inferAndTranslate(unit, mode string, fn *ssa.Function, fc *FuncContract) (*VC, *Frame) {
	if eng.solvers == nil {
		return eng.translate(unit, mode, fn, fc, false)
	}
	hs := &houdiniState{dead: map[string]bool{}, seen: map[string]bool{}}
	eng.houdini[unit] = hs
	for {
		hs.round++
		vc, fr := eng.translate(unit, mode, fn, fc, false)
		var cand []*Obligation
		for _, o := range vc.obls {
			if strings.HasPrefix(o.Kind, "houdini.") {
				cand = append(cand, o)
			}
		}
		if len(cand) == 0 || hs.round > 8 {
			vc.note("Houdini inference: %d round(s), %d of %d candidate invariants (0 <= x) survive", hs.round, len(hs.seen)-len(hs.dead), len(hs.seen))
			return vc, fr
		}
		for _, o := range cand {
			o.quickOnly = true
		}
		eng.solvers.discharge(cand, eng.workers)
		for _, o := range cand {
			o.quickOnly = false
		}
		removed := 0
		for _, o := range cand {
			if o.Status != "discharged" && !hs.dead[o.hkey] {
				hs.dead[o.hkey] = true
				removed++
			}
		}
		if removed == 0 {
			vc.note("Houdini inference: %d round(s), %d of %d candidate invariants (0 <= x) survive", hs.round, len(hs.seen)-len(hs.dead), len(hs.seen))
			return vc, fr
		}
	}
}
