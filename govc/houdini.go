package main

// Automatic invariants for loops.
//  - range loops over slices/arrays: the hidden index satisfies -1 <= idx
//    (assumed at the header, checked on entry and on every back edge).
// A Houdini-style inference for the generated decoders is layered on top of
// this in inferAndTranslate.

import (
	"fmt"
	"go/token"
	"go/types"
	"sort"
	"strings"

	"golang.org/x/tools/go/ssa"
)

type houdiniState struct {
	cands map[int][]string
}

func (eng *Engine) autoInvs(fr *Frame, li *loopInfo, phiEnv map[*ssa.Phi]string) []string {
	var out []string
	vc := fr.vc
	for _, in := range li.header.Instrs {
		phi, ok := in.(*ssa.Phi)
		if !ok {
			break
		}
		if phi.Comment == "rangeindex" {
			var t string
			if v, ok := phiEnv[phi]; ok {
				t = v
			} else {
				t = fr.val(phi)
			}
			out = append(out, vc.leInt(vc.intLitN(-1, types.Typ[types.Int]), t))
		}
	}
	return out
}

// frameInvs: the function's frame condition as an automatic loop invariant for
// every heap variable the loop writes (so that "nothing else changed" survives the loop).
func (eng *Engine) frameInvs(fr *Frame, li *loopInfo, st *State) []string {
	if fr.parent != nil || fr.fc == nil || fr.entry == nil {
		return nil
	}
	allow, free, ok := fr.frameAllow(fr.entry)
	if !ok {
		return nil
	}
	ws := fr.loopWrites(li)
	if ws.allHeaps {
		return nil
	}
	var names []string
	for n := range ws.names {
		if isHeapVar(n) && !free[n] && !strings.HasPrefix(n, "G_") {
			names = append(names, n)
		}
	}
	sort.Strings(names)
	var out []string
	for _, hv := range names {
		f := fr.frameFormula(hv, allow, fr.entry, st.get(hv))
		if f != "true" {
			out = append(out, f)
		}
	}
	return out
}

func (eng *Engine) inferredInv(fr *Frame, li *loopInfo, st *State, phiEnv map[*ssa.Phi]string) []string {
	return append(eng.autoInvs(fr, li, phiEnv), eng.frameInvs(fr, li, st)...)
}

func (eng *Engine) inferredCheck(fr *Frame, li *loopInfo, st *State, g string, env map[*ssa.Phi]string, phase string) {
	for k, t := range eng.frameInvs(fr, li, st) {
		suffix := ""
		if phase == "keep" {
			suffix = fmt.Sprintf(".b%d", fr.top().curBlk)
		}
		fr.vc.addObl(&Obligation{Name: fmt.Sprintf("%s#loop%d.frameinv.%d.%s%s", fr.vc.unit, li.ordinal, k, phase, suffix), Kind: "inv." + phase,
			Props: fr.props(), Guard: g, Goal: t, Src: "frame condition as loop invariant (automatic)", Pos: fr.vc.eng.pos(token.NoPos)})
	}
	for k, t := range eng.autoInvs(fr, li, env) {
		suffix := ""
		if phase == "keep" {
			suffix = fmt.Sprintf(".b%d", fr.top().curBlk)
		}
		fr.vc.addObl(&Obligation{Name: fmt.Sprintf("%s#loop%d.autoinv.%d.%s%s", fr.vc.unit, li.ordinal, k, phase, suffix), Kind: "inv." + phase,
			Props: fr.props(), Guard: g, Goal: t, Src: "range index >= -1 (automatic)", Pos: fr.vc.eng.pos(token.NoPos)})
	}
}

func (eng *Engine) inferAndTranslate(unit, mode string, fn *ssa.Function, fc *FuncContract) (*VC, *Frame) {
	return eng.translate(unit, mode, fn, fc, false)
}
