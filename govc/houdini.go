package main

// Houdini-style inference of simple inductive invariants for loops without
// annotation (used for zero-annotation safety of generated code).
// Implemented in a later step; currently no invariants are inferred.

import (
	"golang.org/x/tools/go/ssa"
)

type houdiniState struct {
	cands map[int][]string // per loop ordinal: surviving candidate source texts
}

func (eng *Engine) inferredInv(fr *Frame, li *loopInfo, st *State, phiEnv map[*ssa.Phi]string) []string {
	return nil
}

func (eng *Engine) inferredCheck(fr *Frame, li *loopInfo, st *State, g string, env map[*ssa.Phi]string, phase string) {
}

func (eng *Engine) inferAndTranslate(unit, mode string, fn *ssa.Function, fc *FuncContract) (*VC, *Frame) {
	return eng.translate(unit, mode, fn, fc, false)
}
