package main

// SSA -> SMT translation of one function body (cut-point VCs).

import (
	"fmt"
	"go/constant"
	"go/token"
	"go/types"
	"math/big"
	"sort"
	"strings"

	"golang.org/x/tools/go/ssa"
)

type step struct {
	isIndex bool
	field   int
	index   string
	parent  types.Type // type of the object the step is applied to (struct for field; array/backing for index)
	elem    types.Type // resulting type
}

// Loc is a translation-time description of an addressable location.
type Loc struct {
	svar  string     // state variable holding the root object (or the heap)
	addr  string     // "" for local cells / globals; else address into the heap array svar
	typ   types.Type // type of the root object (svar[addr] or svar)
	path  []step
	nilOK bool // no nil check needed
}

func (l *Loc) extend(s step) *Loc {
	n := *l
	n.path = append(append([]step(nil), l.path...), s)
	return &n
}

func (l *Loc) resultType() types.Type {
	if len(l.path) == 0 {
		return l.typ
	}
	return l.path[len(l.path)-1].elem
}

type deferRec struct {
	instr *ssa.Defer
	guard string
	args  []string
	block int
}

type retRec struct {
	guard   string
	st      *State
	results []string
	pos     token.Pos
}

type loopInfo struct {
	header  *ssa.BasicBlock
	body    map[int]bool
	ordinal int
	spec    *LoopSpec
}

type writeSet struct {
	names    map[string]bool
	allHeaps bool
	allGhost bool
	fields   map[string]map[int]bool // heap var -> fields written through a field path
	whole    map[string]bool         // heap var written other than through a field path / fresh allocation
}

func (w *writeSet) add(o *writeSet) {
	if o == nil {
		return
	}
	for n := range o.names {
		w.names[n] = true
	}
	for hv, fs := range o.fields {
		if w.fields == nil {
			w.fields = map[string]map[int]bool{}
		}
		if w.fields[hv] == nil {
			w.fields[hv] = map[int]bool{}
		}
		for f := range fs {
			w.fields[hv][f] = true
		}
	}
	for hv := range o.whole {
		if w.whole == nil {
			w.whole = map[string]bool{}
		}
		w.whole[hv] = true
	}
	w.allHeaps = w.allHeaps || o.allHeaps
	w.allGhost = w.allGhost || o.allGhost
}

type Frame struct {
	vc          *VC
	fn          *ssa.Function
	fc          *FuncContract
	prefix      string
	vals        map[ssa.Value]string
	tuples      map[ssa.Value][]string
	locs        map[ssa.Value]*Loc
	guards      map[int]string
	exits       map[int]*State
	edge        map[[2]int]string
	defers      []*deferRec
	rets        []retRec
	isTop       bool
	depth       int
	loops       map[int]*loopInfo // by header block index
	entry       *State            // function entry state (for old())
	curBlk      int
	writes      map[int]*writeSet // per block (top-level frame only; inlined frames forward to parent)
	parent      *Frame
	fvLocs      map[*ssa.FreeVar]*Loc
	fvVals      map[*ssa.FreeVar]string
	closures    map[ssa.Value]*closureInfo
	callSeq     map[string]int
	rangeOf     map[ssa.Value]ssa.Value // Range instr -> ranged map/string
	phiEnv      map[*ssa.Phi]string
	nameAllocs  map[string]*ssa.Alloc
	nameVals    map[string][]ssa.Value
	headerState map[int]*State
	allocSizes  []allocSite
	factGuard   string // when set, type-invariant facts about loaded values are assumed under this path condition
}

type closureInfo struct {
	fn       *ssa.Function
	bindings []ssa.Value
	frame    *Frame
}

func (fr *Frame) top() *Frame {
	f := fr
	for f.parent != nil {
		f = f.parent
	}
	return f
}

func (fr *Frame) recordWrite(name string) {
	t := fr.top()
	ws := t.writes[t.curBlk]
	if ws == nil {
		ws = &writeSet{names: map[string]bool{}}
		t.writes[t.curBlk] = ws
	}
	ws.names[name] = true
}

// recordKind refines the last recorded write of a heap variable: "field" (through a field
// path), "fresh" (initialisation of a freshly allocated object) or "whole".
func (fr *Frame) recordKind(name, kind string, field int) {
	t := fr.top()
	ws := t.writes[t.curBlk]
	if ws == nil {
		return
	}
	switch kind {
	case "field":
		if ws.fields == nil {
			ws.fields = map[string]map[int]bool{}
		}
		if ws.fields[name] == nil {
			ws.fields[name] = map[int]bool{}
		}
		ws.fields[name][field] = true
	case "fresh":
	default:
		if ws.whole == nil {
			ws.whole = map[string]bool{}
		}
		ws.whole[name] = true
	}
}

func (fr *Frame) recordHavocAll(heaps, ghost bool) {
	t := fr.top()
	ws := t.writes[t.curBlk]
	if ws == nil {
		ws = &writeSet{names: map[string]bool{}}
		t.writes[t.curBlk] = ws
	}
	ws.allHeaps = ws.allHeaps || heaps
	ws.allGhost = ws.allGhost || ghost
}

// setVar updates a state variable through a named constant.
func (fr *Frame) setVar(st *State, name, term string) *State {
	return fr.setVarKind(st, name, term, "whole", 0)
}

func (fr *Frame) setVarKind(st *State, name, term, kind string, field int) *State {
	fr.recordWrite(name)
	if isHeapVar(name) {
		fr.recordKind(name, kind, field)
	}
	c := fr.vc.freshConst(name, fr.vc.stateVarSort(name))
	fr.vc.assume(eq(c, term))
	return st.set(name, c)
}

// ------------------------------------------------------------ state vars

func (vc *VC) heapVar(t types.Type) string {
	name := "H_" + vc.typeKey(t)
	if _, ok := vc.svSorts[name]; !ok {
		vc.svSorts[name] = fmt.Sprintf("(Array Int %s)", vc.sortOf(t))
		vc.heapTypes[t] = name
	}
	return name
}

func (vc *VC) arrHeapVar(elem types.Type) string {
	name := "HA_" + vc.typeKey(elem)
	if _, ok := vc.svSorts[name]; !ok {
		vc.svSorts[name] = fmt.Sprintf("(Array Int (Array %s %s))", vc.goInt(), vc.sortOf(elem))
		vc.arrTypes[name] = elem
	}
	return name
}

func (vc *VC) mapSort(m *types.Map) string {
	name := "M_" + vc.typeKey(m.Key()) + "__" + vc.typeKey(m.Elem())
	ks, vs := vc.sortOf(m.Key()), vc.sortOf(m.Elem())
	vc.decl("s:"+name, fmt.Sprintf("(declare-datatypes ((%s 0)) (((mk_%s (%s_keys (Array %s Bool)) (%s_vals (Array %s %s)) (%s_size %s)))))",
		name, name, name, ks, name, ks, vs, name, vc.goInt()))
	return name
}

func (vc *VC) mapHeapVar(m *types.Map) string {
	ms := vc.mapSort(m)
	name := "HM_" + ms[2:]
	if _, ok := vc.svSorts[name]; !ok {
		vc.svSorts[name] = fmt.Sprintf("(Array Int %s)", ms)
		vc.mapTypes[name] = m
	}
	return name
}

func (vc *VC) simpleVar(name, sort string) string {
	if _, ok := vc.svSorts[name]; !ok {
		vc.svSorts[name] = sort
	}
	return name
}

func (vc *VC) nextVar() string { return vc.simpleVar("NEXT", "Int") }
func (vc *VC) clkVar() string  { return vc.simpleVar("CLK", "Int") }

// alloc returns a fresh reference and the updated state.
func (fr *Frame) alloc(st *State) (*State, string) {
	vc := fr.vc
	nv := vc.nextVar()
	r := vc.freshConst("ref", "Int")
	vc.assume(eq(r, st.get(nv)))
	st2 := fr.setVar(st, nv, fmt.Sprintf("(+ %s 1)", r))
	return st2, r
}

// ------------------------------------------------------------ values

func (fr *Frame) name(v ssa.Value) string {
	switch x := v.(type) {
	case *ssa.Parameter:
		return fr.prefix + "p_" + sanitize(x.Name())
	case *ssa.FreeVar:
		return fr.prefix + "fv_" + sanitize(x.Name())
	}
	return fr.prefix + sanitize(v.Name())
}

func (fr *Frame) constTerm(c *ssa.Const) string {
	vc := fr.vc
	t := c.Type()
	if c.Value == nil {
		return vc.zero(t)
	}
	switch c.Value.Kind() {
	case constant.Bool:
		if constant.BoolVal(c.Value) {
			return "true"
		}
		return "false"
	case constant.String:
		return vc.strLit(constant.StringVal(c.Value))
	case constant.Int:
		bi, ok := new(big.Int).SetString(c.Value.ExactString(), 10)
		if !ok {
			panic(unsupported("big constant " + c.Value.ExactString()))
		}
		if b, isb := t.Underlying().(*types.Basic); isb && b.Info()&types.IsFloat != 0 {
			return bi.String() + ".0"
		}
		return vc.intLit(bi, t)
	case constant.Float:
		f, _ := constant.Float64Val(c.Value)
		if b, isb := t.Underlying().(*types.Basic); isb && b.Info()&types.IsInteger != 0 {
			return vc.intLit(big.NewInt(int64(f)), t)
		}
		return fmt.Sprintf("%f", f)
	}
	panic(unsupported("constant kind " + c.Value.Kind().String()))
}

func (fr *Frame) val(v ssa.Value) string {
	vc := fr.vc
	switch x := v.(type) {
	case *ssa.Const:
		return fr.constTerm(x)
	case *ssa.Function:
		return fmt.Sprintf("%d", vc.funcID(x.String()))
	case *ssa.Global:
		return fmt.Sprintf("%d", vc.funcID("global:"+x.String()))
	case *ssa.Builtin:
		panic(unsupported("builtin as value"))
	}
	if t, ok := fr.vals[v]; ok {
		return t
	}
	if fvv, ok := v.(*ssa.FreeVar); ok {
		if t, ok := fr.fvVals[fvv]; ok {
			return t
		}
	}
	if _, ok := fr.tuples[v]; ok {
		panic(unsupported("tuple used as value"))
	}
	// interior pointers (&x.f, &a[i]) used as first-class values: opaque address
	switch v.(type) {
	case *ssa.FieldAddr, *ssa.IndexAddr:
		if _, ok := fr.locs[v]; ok {
			n := fr.vc.freshConst("iptr", "Int")
			fr.vc.assume(fmt.Sprintf("(< 0 %s)", n))
			fr.vals[v] = n
			fr.vc.note("interior pointer %s in %s used as a value: treated as an opaque address", v.Name(), fr.fn.String())
			return n
		}
	}
	// parameters and free variables of the top-level function: declare on demand
	switch v.(type) {
	case *ssa.Parameter, *ssa.FreeVar:
		n := fr.name(v)
		fr.introduce(n, v.Type(), nil)
		fr.vals[v] = n
		return n
	}
	panic(unsupported(fmt.Sprintf("value %s (%T) used before definition in %s", v.Name(), v, fr.fn)))
}

// introduce declares a constant of the sort of Go type t with the facts
// every value of that type satisfies (integer range; references below NEXT).
func (fr *Frame) introduce(name string, t types.Type, st *State) {
	vc := fr.vc
	vc.declConst(name, vc.sortOf(t))
	vc.assume(vc.rangeFact(name, t))
	fr.refFacts(name, t, st)
}

func (fr *Frame) refFacts(term string, t types.Type, st *State) {
	vc := fr.vc
	assume := func(f string) { vc.assume(implies(fr.factGuard, f)) }
	if fr.factGuard == "" {
		assume = vc.assume
	}
	if vc.isMathInt(t) {
		return
	}
	var next string
	if st != nil {
		next = st.get(vc.nextVar())
	} else {
		next = vc.entryConst(vc.nextVar())
	}
	switch u := t.Underlying().(type) {
	case *types.Pointer, *types.Map, *types.Chan:
		assume(fmt.Sprintf("(and (<= 0 %s) (< %s %s))", term, term, next))
	case *types.Slice:
		_ = u
		z := vc.intLitN(0, types.Typ[types.Int])
		le := func(a, b string) string {
			if vc.isBV() {
				return fmt.Sprintf("(bvsle %s %s)", a, b)
			}
			return fmt.Sprintf("(<= %s %s)", a, b)
		}
		add := func(a, b string) string {
			if vc.isBV() {
				return fmt.Sprintf("(bvadd %s %s)", a, b)
			}
			return fmt.Sprintf("(+ %s %s)", a, b)
		}
		assume(and(fmt.Sprintf("(<= 0 (sref %s))", term), fmt.Sprintf("(< (sref %s) %s)", term, next),
			le(z, fmt.Sprintf("(soff %s)", term)), le(z, fmt.Sprintf("(slen_ %s)", term)),
			le(fmt.Sprintf("(slen_ %s)", term), fmt.Sprintf("(scap %s)", term)),
			implies(fmt.Sprintf("(= (sref %s) 0)", term), eq(fmt.Sprintf("(scap %s)", term), z))))
		if !vc.isBV() {
			assume(fmt.Sprintf("(<= (+ (soff %s) (scap %s)) %d)", term, term, int64(1)<<48))
		}
		if vc.isBV() {
			assume(fmt.Sprintf("(bvslt %s (_ bv%d 64))", add(fmt.Sprintf("(soff %s)", term), fmt.Sprintf("(scap %s)", term)), int64(1)<<40))
			assume(fmt.Sprintf("(bvslt %s (_ bv%d 64))", fmt.Sprintf("(soff %s)", term), int64(1)<<40))
			assume(fmt.Sprintf("(bvslt %s (_ bv%d 64))", fmt.Sprintf("(scap %s)", term), int64(1)<<40))
		}
	case *types.Interface:
		assume(fmt.Sprintf("(and (<= 0 (ityp %s)) (<= 0 (ival %s)) (< (ival %s) %s) (=> (= (ityp %s) 0) (= (ival %s) 0)))", term, term, term, next, term, term))
	}
}

func (vc *VC) funcID(name string) int {
	if id, ok := vc.eng.funcIDs[name]; ok {
		return id
	}
	id := len(vc.eng.funcIDs) + 1000
	vc.eng.funcIDs[name] = id
	return id
}

// def binds an SSA value to a term through a named constant.
func (fr *Frame) def(v ssa.Value, term string) string {
	vc := fr.vc
	n := fr.name(v)
	vc.declConst(n, vc.sortOf(v.Type()))
	vc.assume(eq(n, term))
	fr.vals[v] = n
	return n
}

// defFresh binds an SSA value to an unconstrained constant (havoc).
func (fr *Frame) defFresh(v ssa.Value, st *State) string {
	n := fr.name(v)
	fr.introduce(n, v.Type(), st)
	fr.vals[v] = n
	return n
}

// ------------------------------------------------------------ locations

func (fr *Frame) locOf(st *State, guard string, v ssa.Value, forWrite bool, pos token.Pos) *Loc {
	vc := fr.vc
	if l, ok := fr.locs[v]; ok {
		return l
	}
	switch x := v.(type) {
	case *ssa.FreeVar:
		if l, ok := fr.fvLocs[x]; ok {
			return l
		}
		// private captured cell of the enclosing function
		pt := x.Type().(*types.Pointer).Elem()
		name := "L_fv_" + sanitize(x.Name())
		vc.simpleVar(name, vc.sortOf(pt))
		l := &Loc{svar: name, typ: pt, nilOK: true}
		fr.locs[v] = l
		vc.trust("captured variable %s of %s is treated as private to the closure (no other code holds its address)", x.Name(), fr.fn.String())
		return l
	case *ssa.Global:
		pt := x.Type().(*types.Pointer).Elem()
		name := "G_" + sanitize(shortPkg(x.Pkg.Pkg.Path())+"."+x.Name())
		vc.simpleVar(name, vc.sortOf(pt))
		l := &Loc{svar: name, typ: pt, nilOK: true}
		fr.locs[v] = l
		return l
	}
	// generic pointer value
	pt, ok := v.Type().Underlying().(*types.Pointer)
	if !ok {
		panic(unsupported(fmt.Sprintf("location of non-pointer %s", v.Type())))
	}
	p := fr.val(v)
	if arr, isArr := pt.Elem().Underlying().(*types.Array); isArr {
		// pointers to arrays are references into the array heap
		l := &Loc{svar: vc.arrHeapVar(arr.Elem()), addr: p, typ: pt.Elem()}
		fr.nilCheck(guard, p, pos)
		return l
	}
	l := &Loc{svar: vc.heapVar(pt.Elem()), addr: p, typ: pt.Elem()}
	fr.nilCheck(guard, p, pos)
	return l
}

func (fr *Frame) nilCheck(guard, p string, pos token.Pos) {
	if !fr.safetyOn("nil") {
		return
	}
	fr.safety("nil", guard, not(eq(p, "0")), pos, "nil pointer dereference")
}

func (fr *Frame) load(st *State, l *Loc) string {
	vc := fr.vc
	v := st.get(l.svar)
	if l.addr != "" {
		v = fmt.Sprintf("(select %s %s)", v, l.addr)
	}
	for _, s := range l.path {
		if s.isIndex {
			v = fmt.Sprintf("(select %s %s)", v, s.index)
		} else {
			v = fmt.Sprintf("(%s %s)", vc.fieldAcc(s.parent, s.field), v)
		}
	}
	return v
}

func (fr *Frame) updPath(base string, path []step, val string) string {
	if len(path) == 0 {
		return val
	}
	s := path[0]
	if s.isIndex {
		inner := fmt.Sprintf("(select %s %s)", base, s.index)
		return fmt.Sprintf("(store %s %s %s)", base, s.index, fr.updPath(inner, path[1:], val))
	}
	inner := fmt.Sprintf("(%s %s)", fr.vc.fieldAcc(s.parent, s.field), base)
	return fr.vc.structUpdate(s.parent, base, s.field, fr.updPath(inner, path[1:], val))
}

func (fr *Frame) store(st *State, l *Loc, val string) *State {
	root := st.get(l.svar)
	var nr string
	if l.addr != "" {
		obj := fmt.Sprintf("(select %s %s)", root, l.addr)
		nr = fmt.Sprintf("(store %s %s %s)", root, l.addr, fr.updPath(obj, l.path, val))
		if len(l.path) > 0 && !l.path[0].isIndex && strings.HasPrefix(l.svar, "H_") {
			return fr.setVarKind(st, l.svar, nr, "field", l.path[0].field)
		}
	} else {
		nr = fr.updPath(root, l.path, val)
	}
	return fr.setVar(st, l.svar, nr)
}

// ------------------------------------------------------------ safety

func (fr *Frame) safetyOn(kind string) bool {
	t := fr.top()
	if t.fc != nil {
		if v, ok := t.fc.Safety[kind]; ok {
			return v
		}
	}
	switch kind {
	case "nil", "overflow":
		return false
	}
	return true
}

func (fr *Frame) safety(kind, guard, goal string, pos token.Pos, what string) {
	if !fr.safetyOn(kind) {
		return
	}
	if goal == "true" {
		return
	}
	t := fr.top()
	vc := fr.vc
	n := 0
	for _, o := range vc.obls {
		if strings.HasPrefix(o.Kind, "safety."+kind) {
			n++
		}
	}
	vc.addObl(&Obligation{
		Name:  fmt.Sprintf("%s#safety.%s.%d", vc.unit, kind, n),
		Kind:  "safety." + kind,
		Props: t.props(),
		Guard: guard, Goal: goal, Src: what,
		Pos: fr.vc.eng.pos(pos),
	})
}

func (fr *Frame) props() []string {
	if fr.fc != nil {
		return fr.fc.Props
	}
	return nil
}

// ------------------------------------------------------------ body

func (fr *Frame) analyzeLoops() {
	fn := fr.fn
	fr.loops = map[int]*loopInfo{}
	var headers []*ssa.BasicBlock
	for _, b := range fn.Blocks {
		for _, s := range b.Succs {
			if s.Dominates(b) {
				li := fr.loops[s.Index]
				if li == nil {
					li = &loopInfo{header: s, body: map[int]bool{s.Index: true}}
					fr.loops[s.Index] = li
					headers = append(headers, s)
				}
				// natural loop of back edge b->s
				var stack []*ssa.BasicBlock
				if !li.body[b.Index] {
					li.body[b.Index] = true
					stack = append(stack, b)
				}
				for len(stack) > 0 {
					x := stack[len(stack)-1]
					stack = stack[:len(stack)-1]
					for _, p := range x.Preds {
						if !li.body[p.Index] {
							li.body[p.Index] = true
							stack = append(stack, p)
						}
					}
				}
			}
		}
	}
	sort.Slice(headers, func(i, j int) bool { return headers[i].Index < headers[j].Index })
	for i, h := range headers {
		li := fr.loops[h.Index]
		li.ordinal = i
		if fr.fc != nil {
			li.spec = fr.fc.Loops[i]
		}
	}
}

func (fr *Frame) rpo() []*ssa.BasicBlock {
	fn := fr.fn
	seen := map[int]bool{}
	var post []*ssa.BasicBlock
	var dfs func(b *ssa.BasicBlock)
	dfs = func(b *ssa.BasicBlock) {
		seen[b.Index] = true
		for _, s := range b.Succs {
			if s.Dominates(b) { // back edge
				continue
			}
			if !seen[s.Index] {
				dfs(s)
			}
		}
		post = append(post, b)
	}
	dfs(fn.Blocks[0])
	for i, j := 0, len(post)-1; i < j; i, j = i+1, j-1 {
		post[i], post[j] = post[j], post[i]
	}
	return post
}

func (fr *Frame) collectNames() {
	fr.nameAllocs = map[string]*ssa.Alloc{}
	fr.nameVals = map[string][]ssa.Value{}
	for _, b := range fr.fn.Blocks {
		for _, in := range b.Instrs {
			switch x := in.(type) {
			case *ssa.Alloc:
				if x.Comment != "" {
					if _, dup := fr.nameAllocs[x.Comment]; !dup {
						fr.nameAllocs[x.Comment] = x
					}
				}
			case *ssa.DebugRef:
				if x.IsAddr {
					continue
				}
				if obj := x.Object(); obj != nil {
					if _, isVar := obj.(*types.Var); isVar {
						fr.nameVals[obj.Name()] = append(fr.nameVals[obj.Name()], x.X)
					}
				}
			}
		}
	}
}

// run translates the body. entry is the state at function entry; guard the entry path condition.
func (fr *Frame) run(entry *State, guard string) {
	fn := fr.fn
	if len(fn.Blocks) == 0 {
		panic(unsupported("function without body: " + fn.String()))
	}
	fr.analyzeLoops()
	fr.collectNames()
	fr.entry = entry
	order := fr.rpo()
	for _, b := range order {
		fr.top().curBlk = fr.blockKey(b)
		var st *State
		var g string
		if b.Index == 0 {
			st, g = entry, guard
		} else if li, isHeader := fr.loops[b.Index]; isHeader {
			st, g = fr.enterLoop(li)
		} else {
			var ins []mergeIn
			var gs []string
			for _, p := range b.Preds {
				pg, ok := fr.guards[p.Index]
				if !ok {
					continue // unreachable predecessor
				}
				eg := and(pg, fr.edge[[2]int{p.Index, b.Index}])
				gs = append(gs, eg)
				ins = append(ins, mergeIn{eg, fr.exits[p.Index]})
			}
			if len(ins) == 0 {
				continue
			}
			g = or(gs...)
			if len(gs) > 1 {
				gc := fr.vc.freshConst("g_"+fr.prefix+fmt.Sprint(b.Index), "Bool")
				fr.vc.assume(eq(gc, g))
				g = gc
			}
			st = mergeStates(fr.vc, ins)
			fr.phis(b, false, nil)
		}
		fr.guards[b.Index] = g
		st = fr.block(b, st, g)
		fr.exits[b.Index] = st
		// back edges: invariant preservation
		for _, s := range b.Succs {
			if li, ok := fr.loops[s.Index]; ok && s.Dominates(b) {
				fr.backEdge(li, b, st, and(g, fr.edge[[2]int{b.Index, s.Index}]))
			}
		}
	}
}

func (fr *Frame) blockKey(b *ssa.BasicBlock) int {
	if fr.parent != nil {
		return fr.top().curBlk
	}
	return b.Index
}

// phis defines the phi nodes of a join block.
func (fr *Frame) phis(b *ssa.BasicBlock, header bool, _ *loopInfo) {
	vc := fr.vc
	for _, in := range b.Instrs {
		phi, ok := in.(*ssa.Phi)
		if !ok {
			break
		}
		n := fr.name(phi)
		vc.declConst(n, vc.sortOf(phi.Type()))
		fr.vals[phi] = n
		for i, p := range b.Preds {
			pg, ok := fr.guards[p.Index]
			if !ok {
				continue
			}
			eg := and(pg, fr.edge[[2]int{p.Index, b.Index}])
			vc.assume(implies(eg, eq(n, fr.val(phi.Edges[i]))))
		}
	}
}

func (fr *Frame) enterLoop(li *loopInfo) (*State, string) {
	vc := fr.vc
	b := li.header
	if fr.parent != nil || !fr.isTop {
		panic(unsupported("loop in inlined function " + fr.fn.String()))
	}
	// entry edges
	var ins []mergeIn
	var gs []string
	type entryEdge struct {
		pred *ssa.BasicBlock
		idx  int
		g    string
	}
	var entries []entryEdge
	for i, p := range b.Preds {
		if b.Dominates(p) {
			continue
		}
		pg, ok := fr.guards[p.Index]
		if !ok {
			continue
		}
		eg := and(pg, fr.edge[[2]int{p.Index, b.Index}])
		gs = append(gs, eg)
		ins = append(ins, mergeIn{eg, fr.exits[p.Index]})
		entries = append(entries, entryEdge{p, i, eg})
	}
	pre := mergeStates(vc, ins)
	// invariant established on entry
	for _, e := range entries {
		env := map[*ssa.Phi]string{}
		for _, in := range b.Instrs {
			if phi, ok := in.(*ssa.Phi); ok {
				env[phi] = fr.val(phi.Edges[e.idx])
			}
		}
		fr.checkInvariant(li, fr.exits[e.pred.Index], e.g, env, "init", b.Instrs[0].Pos())
	}
	// havoc what the loop modifies
	ws := fr.loopWrites(li)
	st := pre.havoc(fmt.Sprintf("L%d", li.ordinal), ws.names, ws.allHeaps, ws.allGhost)
	if !ws.allHeaps {
		st.havocFields = map[string]map[int]bool{}
		for hv, fs := range ws.fields {
			if !ws.whole[hv] {
				st.havocFields[hv] = fs
			}
		}
	}
	atL := vc.freshConst(fmt.Sprintf("atloop%d", li.ordinal), "Bool")
	vc.assume(implies(atL, or(gs...)))
	for _, in := range b.Instrs {
		phi, ok := in.(*ssa.Phi)
		if !ok {
			break
		}
		n := fr.name(phi)
		fr.introduce(n, phi.Type(), st)
		fr.vals[phi] = n
	}
	fr.headerState[b.Index] = st
	// assume invariants
	if li.spec != nil {
		for _, c := range li.spec.Invariants {
			c := c
			t, bound := fr.tolerate(func() string { return fr.evalClause(c, fr.invEnv(li, st, nil), "loop invariant") })
			if !bound {
				vc.incomplete = append(vc.incomplete, "a loop invariant of the contract does not bind to the code and was not assumed")
				continue
			}
			vc.assume(implies(atL, t))
		}
	}
	for _, t := range fr.vc.eng.inferredInv(fr, li, st, nil) {
		vc.assume(implies(atL, t))
	}
	return st, atL
}

func (fr *Frame) loopWrites(li *loopInfo) *writeSet {
	ws := &writeSet{names: map[string]bool{}}
	prev := fr.vc.eng.prevWrites[fr.vc.unit]
	if prev == nil {
		return ws // pass 1
	}
	for bi := range li.body {
		ws.add(prev[bi])
	}
	return ws
}

func (fr *Frame) backEdge(li *loopInfo, from *ssa.BasicBlock, st *State, g string) {
	b := li.header
	idx := -1
	for i, p := range b.Preds {
		if p == from {
			idx = i
		}
	}
	env := map[*ssa.Phi]string{}
	for _, in := range b.Instrs {
		if phi, ok := in.(*ssa.Phi); ok {
			env[phi] = fr.val(phi.Edges[idx])
		}
	}
	pos := token.NoPos
	if len(from.Instrs) > 0 {
		pos = from.Instrs[len(from.Instrs)-1].Pos()
	}
	fr.checkInvariant(li, st, g, env, "keep", pos)
	// decreases
	if li.spec != nil && li.spec.Decreases != nil {
		hst := fr.headerState[b.Index]
		before := fr.evalClauseTV(*li.spec.Decreases, fr.invEnv(li, hst, nil))
		after := fr.evalClauseTV(*li.spec.Decreases, fr.invEnv(li, st, env))
		lt, _ := fr.vc.binop(token.LSS, after.term, before.term, before.typ, before.typ)
		ge, _ := fr.vc.binop(token.GEQ, before.term, fr.vc.intLitN(0, before.typ), before.typ, before.typ)
		fr.vc.addObl(&Obligation{
			Name: fmt.Sprintf("%s#loop%d.decreases.from%d", fr.vc.unit, li.ordinal, from.Index),
			Kind: "decreases", Props: fr.props(), Guard: g, Goal: and(lt, ge),
			Src: li.spec.Decreases.Src, File: li.spec.Decreases.File, Line: li.spec.Decreases.Line, Pos: fr.vc.eng.pos(pos),
		})
	}
}

func (fr *Frame) checkInvariant(li *loopInfo, st *State, g string, env map[*ssa.Phi]string, phase string, pos token.Pos) {
	vc := fr.vc
	if li.spec != nil {
		for k, c := range li.spec.Invariants {
			c := c
			t, bound := fr.tolerate(func() string { return fr.evalGoal(c, fr.invEnv(li, st, env), "loop invariant") })
			if !bound {
				continue
			}
			label := c.Label
			if label == "" {
				label = fmt.Sprint(k)
			}
			suffix := ""
			if phase == "keep" {
				suffix = fmt.Sprintf(".b%d", fr.top().curBlk)
			}
			vc.addObl(&Obligation{
				Name: fmt.Sprintf("%s#loop%d.inv.%s.%s%s", vc.unit, li.ordinal, label, phase, suffix),
				Kind: "inv." + phase, Props: fr.props(), Guard: g, Goal: t,
				Src: c.Src, File: c.File, Line: c.Line, Pos: vc.eng.pos(pos), Extra: vc.clauseLemmas(c),
			})
		}
	}
	vc.eng.inferredCheck(fr, li, st, g, env, phase)
}

// ------------------------------------------------------------ blocks

func (fr *Frame) block(b *ssa.BasicBlock, st *State, g string) *State {
	defer func() {
		if r := recover(); r != nil {
			if u, ok := r.(unsupported); ok {
				pos := token.NoPos
				panic(unsupported(fmt.Sprintf("%s (in %s block %d %s)", string(u), fr.fn.String(), b.Index, fr.vc.eng.pos(pos))))
			}
			panic(r)
		}
	}()
	for _, in := range b.Instrs {
		st = fr.instr(b, in, st, g)
	}
	return st
}

func (fr *Frame) instr(b *ssa.BasicBlock, in ssa.Instruction, st *State, g string) *State {
	vc := fr.vc
	switch x := in.(type) {
	case *ssa.DebugRef:
		return st
	case *ssa.Phi:
		return st // handled at block entry
	case *ssa.Jump:
		fr.edge[[2]int{b.Index, b.Succs[0].Index}] = "true"
		return st
	case *ssa.If:
		c := fr.val(x.Cond)
		fr.edge[[2]int{b.Index, b.Succs[0].Index}] = c
		fr.edge[[2]int{b.Index, b.Succs[1].Index}] = not(c)
		if b.Succs[0] == b.Succs[1] {
			fr.edge[[2]int{b.Index, b.Succs[0].Index}] = "true"
		}
		return st
	case *ssa.Return:
		var rs []string
		for _, r := range x.Results {
			rs = append(rs, fr.val(r))
		}
		fr.rets = append(fr.rets, retRec{guard: g, st: st, results: rs, pos: x.Pos()})
		return st
	case *ssa.Panic:
		fr.safety("panic", g, "false", x.Pos(), "explicit panic reached")
		return st
	case *ssa.RunDefers:
		return fr.runDefers(st, g)
	case *ssa.Defer:
		var args []string
		for _, a := range x.Call.Args {
			args = append(args, fr.val(a))
		}
		fr.defers = append(fr.defers, &deferRec{instr: x, guard: g, args: args, block: b.Index})
		return st
	case *ssa.Go:
		vc.note("go statement in %s: the spawned call is not modelled (no thread semantics)", fr.fn.String())
		fr.recordHavocAll(true, false)
		return st.havoc(vc.fresh("go"), nil, true, false)
	case *ssa.Store:
		l := fr.locOf(st, g, x.Addr, true, x.Pos())
		return fr.store(st, l, fr.val(x.Val))
	case *ssa.MapUpdate:
		return fr.mapUpdate(st, g, x)
	case *ssa.Send:
		return fr.chanSend(st, g, x)
	case *ssa.Alloc:
		return fr.allocInstr(st, x)
	case *ssa.FieldAddr:
		pt := x.X.Type().Underlying().(*types.Pointer).Elem()
		base := fr.locOf(st, g, x.X, false, x.Pos())
		stt := pt.Underlying().(*types.Struct)
		fr.locs[x] = base.extend(step{field: x.Field, parent: pt, elem: stt.Field(x.Field).Type()})
		return st
	case *ssa.IndexAddr:
		return fr.indexAddr(st, g, x)
	case *ssa.UnOp:
		return fr.unop(st, g, x)
	case *ssa.BinOp:
		xt := x.X.Type()
		if _, isSl := xt.Underlying().(*types.Slice); isSl && (x.Op == token.EQL || x.Op == token.NEQ) {
			// comparison with nil: a slice is nil iff it has no backing array
			other := x.X
			if c, ok := x.X.(*ssa.Const); ok && c.Value == nil {
				other = x.Y
			}
			t := eq(fmt.Sprintf("(sref %s)", fr.val(other)), "0")
			if x.Op == token.NEQ {
				t = not(t)
			}
			fr.def(x, t)
			return st
		}
		t, ovf := vc.binop(x.Op, fr.val(x.X), fr.val(x.Y), xt, x.Y.Type())
		if (x.Op == token.QUO || x.Op == token.REM) && isIntType(xt) {
			fr.safety("div", g, not(eq(fr.val(x.Y), vc.intLitN(0, x.Y.Type()))), x.Pos(), "division by zero")
		}
		if ovf != "" {
			fr.safety("overflow", g, ovf, x.Pos(), "integer overflow in "+x.Op.String())
		}
		fr.def(x, t)
		return st
	case *ssa.ChangeType:
		fr.def(x, vc.retype(fr.val(x.X), x.X.Type(), x.Type()))
		return st
	case *ssa.Convert:
		return fr.convert(st, g, x)
	case *ssa.ChangeInterface:
		fr.def(x, fr.val(x.X))
		return st
	case *ssa.MakeInterface:
		return fr.makeInterface(st, x)
	case *ssa.TypeAssert:
		return fr.typeAssert(st, g, x)
	case *ssa.Extract:
		tup, ok := fr.tuples[x.Tuple]
		if !ok {
			panic(unsupported("extract from unknown tuple"))
		}
		fr.def(x, tup[x.Index])
		return st
	case *ssa.Field:
		stt := x.X.Type().Underlying().(*types.Struct)
		_ = stt
		fr.def(x, fmt.Sprintf("(%s %s)", vc.fieldAcc(x.X.Type(), x.Field), fr.val(x.X)))
		return st
	case *ssa.Index:
		return fr.indexVal(st, g, x)
	case *ssa.Lookup:
		return fr.lookup(st, g, x)
	case *ssa.Slice:
		return fr.sliceInstr(st, g, x)
	case *ssa.MakeSlice:
		return fr.makeSlice(st, g, x)
	case *ssa.MakeMap:
		var r string
		st, r = fr.alloc(st)
		m := x.Type().Underlying().(*types.Map)
		hv := vc.mapHeapVar(m)
		ms := vc.mapSort(m)
		ks := vc.sortOf(m.Key())
		empty := fmt.Sprintf("(mk_%s ((as const (Array %s Bool)) false) %s %s)", ms, ks, vc.constArray(fmt.Sprintf("(Array %s %s)", ks, vc.sortOf(m.Elem())), vc.zero(m.Elem())), vc.intLitN(0, types.Typ[types.Int]))
		st = fr.setVar(st, hv, fmt.Sprintf("(store %s %s %s)", st.get(hv), r, empty))
		fr.def(x, r)
		return st
	case *ssa.MakeChan:
		var r string
		st, r = fr.alloc(st)
		fr.def(x, r)
		return st
	case *ssa.MakeClosure:
		fn := x.Fn.(*ssa.Function)
		fr.closures[x] = &closureInfo{fn: fn, bindings: x.Bindings, frame: fr}
		var r string
		st, r = fr.alloc(st)
		fr.def(x, r)
		return st
	case *ssa.Range:
		fr.rangeOf[x] = x.X
		fr.vals[x] = "0"
		if m, ok := x.X.Type().Underlying().(*types.Map); ok {
			// ghost: the set of keys this range statement has produced so far
			name := fr.visitedVar(x)
			if name != "" {
				st = fr.setVar(st, name, vc.constArray(fmt.Sprintf("(Array %s Bool)", vc.sortOf(m.Key())), "false"))
			}
		}
		return st
	case *ssa.Next:
		return fr.next(st, g, x)
	case *ssa.Select:
		return fr.selectInstr(st, g, x)
	case *ssa.Call:
		st2, res := fr.call(st, g, x, &x.Call, x.Pos())
		sig := x.Call.Signature()
		switch sig.Results().Len() {
		case 0:
		case 1:
			fr.def(x, res[0])
		default:
			fr.tuples[x] = res
		}
		return st2
	case *ssa.SliceToArrayPointer, *ssa.MultiConvert:
		panic(unsupported(fmt.Sprintf("instruction %T", in)))
	}
	panic(unsupported(fmt.Sprintf("instruction %T", in)))
}

// isErrorSentinel: an exported package-level variable of type error in a package outside the
// module whose name follows the sentinel convention (Err..., EOF, Skip...).
func isErrorSentinel(pkgPath, name string, t types.Type) bool {
	if strings.HasPrefix(pkgPath, modPath) {
		return false
	}
	if _, ok := t.Underlying().(*types.Interface); !ok || t.String() != "error" {
		return false
	}
	return strings.HasPrefix(name, "Err") || name == "EOF" || strings.HasPrefix(name, "Skip")
}

func isIntType(t types.Type) bool {
	_, _, ok := intInfo(t)
	return ok
}

func (fr *Frame) allocInstr(st *State, x *ssa.Alloc) *State {
	vc := fr.vc
	et := x.Type().Underlying().(*types.Pointer).Elem()
	if arr, ok := et.Underlying().(*types.Array); ok {
		var r string
		st, r = fr.alloc(st)
		hv := vc.arrHeapVar(arr.Elem())
		st = fr.setVar(st, hv, fmt.Sprintf("(store %s %s %s)", st.get(hv), r, vc.zero(et)))
		fr.def(x, r)
		fr.locs[x] = &Loc{svar: hv, addr: r, typ: et, nilOK: true}
		return st
	}
	if !fr.escapes(x) {
		name := "L_" + fr.prefix + sanitize(x.Name())
		if x.Comment != "" {
			name += "_" + sanitize(x.Comment)
		}
		vc.simpleVar(name, vc.sortOf(et))
		fr.locs[x] = &Loc{svar: name, typ: et, nilOK: true}
		fr.vals[x] = "(- 1)" // address never used as a value
		return fr.setVar(st, name, vc.zero(et))
	}
	var r string
	st, r = fr.alloc(st)
	hv := vc.heapVar(et)
	st = fr.setVarKind(st, hv, fmt.Sprintf("(store %s %s %s)", st.get(hv), r, vc.zero(et)), "fresh", 0)
	fr.def(x, r)
	fr.locs[x] = &Loc{svar: hv, addr: r, typ: et, nilOK: true}
	return st
}

// escapes: does the address of this Alloc flow anywhere but loads, stores,
// field/index address computations, or closures that are only called/deferred
// locally (and are inlined)?
func (fr *Frame) escapes(a *ssa.Alloc) bool {
	var visit func(v ssa.Value, depth int) bool
	visit = func(v ssa.Value, depth int) bool {
		refs := v.Referrers()
		if refs == nil {
			return true
		}
		for _, r := range *refs {
			switch u := r.(type) {
			case *ssa.Store:
				if u.Val == v {
					return true
				}
			case *ssa.UnOp:
				if u.Op != token.MUL {
					return true
				}
			case *ssa.FieldAddr, *ssa.IndexAddr:
				if depth > 6 || visit(u.(ssa.Value), depth+1) {
					return true
				}
			case *ssa.DebugRef:
			case *ssa.MakeClosure:
				// captured by a closure: local only if the closure is only deferred or called here
				if !fr.closureLocal(u) {
					return true
				}
			default:
				return true
			}
		}
		return false
	}
	return visit(a, 0)
}

func (fr *Frame) closureLocal(mc *ssa.MakeClosure) bool {
	refs := mc.Referrers()
	if refs == nil {
		return false
	}
	for _, r := range *refs {
		switch u := r.(type) {
		case *ssa.Defer:
			if u.Call.Value != mc {
				return false
			}
		case *ssa.Call:
			if u.Call.Value != mc {
				// closures handed to higher-order functions with built-in handling stay local
				if callee := u.Call.StaticCallee(); callee != nil && (canonFunc(callee) == "sort.Search" || canonFunc(callee) == "sort.Slice") {
					continue
				}
				return false
			}
		case *ssa.DebugRef:
		default:
			return false
		}
	}
	fn := mc.Fn.(*ssa.Function)
	return fr.vc.eng.inlinable(fn, true)
}

func (fr *Frame) indexAddr(st *State, g string, x *ssa.IndexAddr) *State {
	vc := fr.vc
	idx := fr.idxTerm(x.Index)
	switch t := x.X.Type().Underlying().(type) {
	case *types.Slice:
		s := fr.val(x.X)
		fr.boundsCheck(g, idx, fmt.Sprintf("(slen_ %s)", s), x.Pos(), "index out of range")
		hv := vc.arrHeapVar(t.Elem())
		abs := vc.absIdx(s, idx)
		fr.locs[x] = &Loc{svar: hv, addr: fmt.Sprintf("(sref %s)", s), typ: types.NewSlice(t.Elem()), nilOK: true,
			path: []step{{isIndex: true, index: abs, elem: t.Elem()}}}
	case *types.Pointer:
		arr := t.Elem().Underlying().(*types.Array)
		base := fr.locOf(st, g, x.X, false, x.Pos())
		fr.boundsCheck(g, idx, vc.intLitN(arr.Len(), types.Typ[types.Int]), x.Pos(), "index out of range")
		fr.locs[x] = base.extend(step{isIndex: true, index: idx, elem: arr.Elem()})
	default:
		panic(unsupported("IndexAddr on " + x.X.Type().String()))
	}
	return st
}

// idxTerm returns an index value converted to the int sort.
func (fr *Frame) idxTerm(v ssa.Value) string {
	t := fr.val(v)
	return fr.vc.convertInt(t, v.Type(), types.Typ[types.Int])
}

func (vc *VC) addInt(a, b string) string {
	if vc.isBV() {
		return fmt.Sprintf("(bvadd %s %s)", a, b)
	}
	if b == "0" {
		return a
	}
	if a == "0" {
		return b
	}
	return fmt.Sprintf("(+ %s %s)", a, b)
}

func (vc *VC) subInt(a, b string) string {
	if vc.isBV() {
		return fmt.Sprintf("(bvsub %s %s)", a, b)
	}
	if b == "0" {
		return a
	}
	return fmt.Sprintf("(- %s %s)", a, b)
}

func (vc *VC) leInt(a, b string) string {
	if vc.isBV() {
		return fmt.Sprintf("(bvsle %s %s)", a, b)
	}
	return fmt.Sprintf("(<= %s %s)", a, b)
}

func (vc *VC) ltInt(a, b string) string {
	if vc.isBV() {
		return fmt.Sprintf("(bvslt %s %s)", a, b)
	}
	return fmt.Sprintf("(< %s %s)", a, b)
}

func (fr *Frame) boundsCheck(g, idx, n string, pos token.Pos, what string) {
	vc := fr.vc
	z := vc.intLitN(0, types.Typ[types.Int])
	fr.safety("index", g, and(vc.leInt(z, idx), vc.ltInt(idx, n)), pos, what)
}

func (fr *Frame) unop(st *State, g string, x *ssa.UnOp) *State {
	vc := fr.vc
	switch x.Op {
	case token.MUL: // load
		l := fr.locOf(st, g, x.X, false, x.Pos())
		v := fr.load(st, l)
		n := fr.def(x, v)
		// type invariants of the loaded value hold on the paths where the load really happens
		vc.assume(implies(g, vc.rangeFact(n, x.Type())))
		fr.factGuard = g
		fr.refFacts(n, x.Type(), st)
		fr.factGuard = ""
		if gl, ok := x.X.(*ssa.Global); ok && gl.Pkg != nil {
			if k, ok := stableGlobalSliceLen(gl); ok {
				// proved from the package's SSA (not assumed): the only store to this unexported package
				// variable is its initialiser make(T, k) with constant k, its address is never taken, so
				// every later load sees a slice of exactly that length
				vc.assume(implies(g, eq(fmt.Sprintf("(slen_ %s)", n), vc.intLitN(k, types.Typ[types.Int]))))
				vc.note("length of package variable %s is fixed at %d by its initialiser (single store in init, address never taken: checked over the package's SSA)", gl.Name(), k)
			}
		}
		if gl, ok := x.X.(*ssa.Global); ok && gl.Pkg != nil && isErrorSentinel(gl.Pkg.Pkg.Path(), gl.Name(), x.Type()) {
			vc.assume(implies(g, fmt.Sprintf("(not (= (ityp %s) 0))", n)))
			vc.trust("exported error sentinels of the standard library and of dependencies (io.EOF, io.ErrUnexpectedEOF, filepath.SkipDir, os.ErrNotExist, ...) are non-nil")
		}
		return st
	case token.ARROW:
		// channel receive: unconstrained value
		ci := fr.chanInvFor(x.X.Type())
		if ci == nil {
			vc.note("channel receive in %s: received value unconstrained", fr.fn.String())
		}
		if x.CommaOk {
			tup := x.Type().(*types.Tuple)
			v := vc.freshConst(fr.name(x)+"_v", vc.sortOf(tup.At(0).Type()))
			ok := vc.freshConst(fr.name(x)+"_ok", "Bool")
			fr.refFacts(v, tup.At(0).Type(), st)
			fr.tuples[x] = []string{v, ok}
			if ci != nil {
				vc.assume(implies(and(g, ok), fr.chanInvTerm(ci, st, v, tup.At(0).Type(), false)))
				if _, isPtr := tup.At(0).Type().Underlying().(*types.Pointer); isPtr {
					vc.assume(implies(and(g, not(ok)), eq(v, "0")))
				}
				fr.chanInvTrust(ci, x.X.Type())
			}
			return st
		}
		fr.defFresh(x, st)
		if ci != nil {
			// a receive without ", ok": the value was sent, or is the zero value of a closed channel
			inv := fr.chanInvTerm(ci, st, fr.val(x), x.Type(), false)
			if _, isPtr := x.Type().Underlying().(*types.Pointer); isPtr {
				inv = or(eq(fr.val(x), "0"), inv)
				vc.assume(implies(g, inv))
				fr.chanInvTrust(ci, x.X.Type())
			}
		}
		return st
	default:
		fr.def(x, vc.unop(x.Op, fr.val(x.X), x.X.Type()))
		return st
	}
}

func (fr *Frame) convert(st *State, g string, x *ssa.Convert) *State {
	vc := fr.vc
	from, to := x.X.Type(), x.Type()
	fb, fIsB := from.Underlying().(*types.Basic)
	tb, tIsB := to.Underlying().(*types.Basic)
	switch {
	case isIntType(from) && isIntType(to):
		fr.def(x, vc.convertInt(fr.val(x.X), from, to))
	case fIsB && tIsB && fb.Info()&types.IsString != 0 && tb.Info()&types.IsString != 0:
		fr.def(x, fr.val(x.X))
	case tIsB && tb.Info()&types.IsString != 0:
		// []byte -> string, int -> string: fresh string; length known for byte slices
		n := fr.defFresh(x, st)
		if sl, ok := from.Underlying().(*types.Slice); ok {
			if b, ok := sl.Elem().Underlying().(*types.Basic); ok && b.Kind() == types.Uint8 {
				s := fr.val(x.X)
				vc.assume(eq(vc.strLen(n), fmt.Sprintf("(slen_ %s)", s)))
				fr.linkStrBytes(st, n, s)
			}
		}
	case fIsB && fb.Info()&types.IsString != 0:
		// string -> []byte / []rune: fresh slice
		var r string
		st, r = fr.alloc(st)
		s := fr.val(x.X)
		z := vc.intLitN(0, types.Typ[types.Int])
		if sl, ok := to.Underlying().(*types.Slice); ok {
			if b, ok := sl.Elem().Underlying().(*types.Basic); ok && b.Kind() == types.Uint8 {
				sv := fmt.Sprintf("(mk-slice %s %s %s %s)", r, z, vc.strLen(s), vc.strLen(s))
				n := fr.def(x, sv)
				hv := vc.arrHeapVar(sl.Elem())
				arr := vc.freshConst("bytes", fmt.Sprintf("(Array %s %s)", vc.goInt(), vc.byteSort()))
				st = fr.setVar(st, hv, fmt.Sprintf("(store %s %s %s)", st.get(hv), r, arr))
				fr.linkStrBytes(st, s, n)
				return st
			}
		}
		fr.defFresh(x, st)
	case fIsB && tIsB && (fb.Info()&types.IsFloat != 0 || tb.Info()&types.IsFloat != 0):
		if fb.Info()&types.IsInteger != 0 && !vc.isBV() {
			fr.def(x, fmt.Sprintf("(to_real %s)", fr.val(x.X)))
		} else {
			fr.defFresh(x, st)
		}
	default:
		if _, ok := from.Underlying().(*types.Struct); ok {
			fr.def(x, vc.retype(fr.val(x.X), from, to))
			return st
		}
		if _, ok := to.Underlying().(*types.Pointer); ok {
			fr.def(x, fr.val(x.X)) // unsafe.Pointer conversions
			return st
		}
		if tIsB && tb.Kind() == types.UnsafePointer {
			fr.def(x, fr.val(x.X))
			return st
		}
		panic(unsupported(fmt.Sprintf("convert %s -> %s", from, to)))
	}
	return st
}

// linkStrBytes: the bytes of string s equal the elements of byte slice b (in the given state).
func (fr *Frame) linkStrBytes(st *State, s, b string) {
	vc := fr.vc
	if vc.isBV() {
		return
	}
	hv := vc.arrHeapVar(types.Typ[types.Uint8])
	arr := fmt.Sprintf("(select %s (sref %s))", st.get(hv), b)
	vc.assume(fmt.Sprintf("(forall ((k Int)) (! (=> (and (<= 0 k) (< k (slen %s))) (= (sat %s k) (select %s (+ (soff %s) k)))) :pattern ((sat %s k))))", s, s, arr, b, s))
}

func (fr *Frame) makeInterface(st *State, x *ssa.MakeInterface) *State {
	vc := fr.vc
	t := x.X.Type()
	id := vc.typeID(t)
	switch t.Underlying().(type) {
	case *types.Pointer, *types.Map, *types.Chan, *types.Signature:
		fr.def(x, fmt.Sprintf("(mk-iface %d %s)", id, fr.val(x.X)))
		return st
	}
	// box the value in a fresh cell of its type's heap
	var r string
	st, r = fr.alloc(st)
	hv := vc.heapVar(t)
	st = fr.setVar(st, hv, fmt.Sprintf("(store %s %s %s)", st.get(hv), r, fr.val(x.X)))
	fr.def(x, fmt.Sprintf("(mk-iface %d %s)", id, r))
	return st
}

func (fr *Frame) typeAssert(st *State, g string, x *ssa.TypeAssert) *State {
	vc := fr.vc
	iv := fr.val(x.X)
	at := x.AssertedType
	var okc, val string
	if ifc, isIface := at.Underlying().(*types.Interface); isIface {
		// interface-to-interface: succeeds iff the dynamic type implements the interface. Decided
		// for the named types of the repository (T and *T); any other dynamic type is unconstrained
		// in the comma-ok form and refused in the panicking form.
		var alts []string
		for path, p := range vc.eng.allPkgs {
			if !strings.HasPrefix(path, modPath) {
				continue
			}
			for _, n := range p.Scope().Names() {
				tn, ok := p.Scope().Lookup(n).(*types.TypeName)
				if !ok || tn.IsAlias() {
					continue
				}
				if _, isI := tn.Type().Underlying().(*types.Interface); isI {
					continue
				}
				for _, cand := range []types.Type{tn.Type(), types.NewPointer(tn.Type())} {
					if types.Implements(cand, ifc) {
						alts = append(alts, eq(fmt.Sprintf("(ityp %s)", iv), fmt.Sprint(vc.typeID(cand))))
					}
				}
			}
		}
		sort.Strings(alts)
		known := or(alts...)
		if x.CommaOk {
			impl := vc.freshConst("impl", "Bool")
			okc = and(not(eq(fmt.Sprintf("(ityp %s)", iv), "0")), or(known, impl))
		} else {
			okc = and(not(eq(fmt.Sprintf("(ityp %s)", iv), "0")), known)
		}
		val = iv
	} else {
		id := vc.typeID(at)
		okc = eq(fmt.Sprintf("(ityp %s)", iv), fmt.Sprint(id))
		switch at.Underlying().(type) {
		case *types.Pointer, *types.Map, *types.Chan, *types.Signature:
			val = fmt.Sprintf("(ival %s)", iv)
		default:
			hv := vc.heapVar(at)
			val = fmt.Sprintf("(select %s (ival %s))", st.get(hv), iv)
		}
	}
	if x.CommaOk {
		okn := vc.freshConst(fr.name(x)+"_ok", "Bool")
		vc.assume(eq(okn, okc))
		vn := vc.freshConst(fr.name(x)+"_v", vc.sortOf(at))
		vc.assume(eq(vn, ite(okn, val, vc.zero(at))))
		fr.tuples[x] = []string{vn, okn}
		return st
	}
	fr.safety("assert", g, okc, x.Pos(), "type assertion")
	fr.def(x, val)
	return st
}

func (fr *Frame) indexVal(st *State, g string, x *ssa.Index) *State {
	vc := fr.vc
	idx := fr.idxTerm(x.Index)
	switch t := x.X.Type().Underlying().(type) {
	case *types.Basic: // string
		s := fr.val(x.X)
		fr.boundsCheck(g, idx, vc.strLen(s), x.Pos(), "string index out of range")
		n := fr.def(x, fmt.Sprintf("(sat %s %s)", s, idx))
		vc.assume(implies(g, vc.rangeFact(n, x.Type())))
	case *types.Array:
		fr.boundsCheck(g, idx, vc.intLitN(t.Len(), types.Typ[types.Int]), x.Pos(), "array index out of range")
		fr.def(x, fmt.Sprintf("(select %s %s)", fr.val(x.X), idx))
	default:
		panic(unsupported("Index on " + x.X.Type().String()))
	}
	return st
}

func (fr *Frame) mapRead(st *State, m *types.Map, mv, k string) (val, ok string) {
	vc := fr.vc
	hv := vc.mapHeapVar(m)
	ms := vc.mapSort(m)
	obj := fmt.Sprintf("(select %s %s)", st.get(hv), mv)
	ok = and(not(eq(mv, "0")), fmt.Sprintf("(select (%s_keys %s) %s)", ms, obj, k))
	val = ite(ok, fmt.Sprintf("(select (%s_vals %s) %s)", ms, obj, k), vc.zero(m.Elem()))
	return
}

func (fr *Frame) lookup(st *State, g string, x *ssa.Lookup) *State {
	vc := fr.vc
	switch t := x.X.Type().Underlying().(type) {
	case *types.Map:
		val, ok := fr.mapRead(st, t, fr.val(x.X), fr.val(x.Index))
		if x.CommaOk {
			okn := vc.freshConst(fr.name(x)+"_ok", "Bool")
			vc.assume(eq(okn, ok))
			vn := vc.freshConst(fr.name(x)+"_v", vc.sortOf(t.Elem()))
			vc.assume(eq(vn, val))
			vc.assume(implies(g, vc.rangeFact(vn, t.Elem())))
			fr.factGuard = g
			fr.refFacts(vn, t.Elem(), st)
			fr.factGuard = ""
			fr.tuples[x] = []string{vn, okn}
			return st
		}
		n := fr.def(x, val)
		vc.assume(implies(g, vc.rangeFact(n, t.Elem())))
		fr.factGuard = g
		fr.refFacts(n, t.Elem(), st)
		fr.factGuard = ""
	case *types.Basic:
		idx := fr.idxTerm(x.Index)
		s := fr.val(x.X)
		fr.boundsCheck(g, idx, vc.strLen(s), x.Pos(), "string index out of range")
		n := fr.def(x, fmt.Sprintf("(sat %s %s)", s, idx))
		vc.assume(implies(g, vc.rangeFact(n, x.Type())))
	default:
		panic(unsupported("Lookup on " + x.X.Type().String()))
	}
	return st
}

func (fr *Frame) mapUpdate(st *State, g string, x *ssa.MapUpdate) *State {
	m := x.Map.Type().Underlying().(*types.Map)
	mv := fr.val(x.Map)
	fr.safety("nilmap", g, not(eq(mv, "0")), x.Pos(), "assignment to entry in nil map")
	return fr.mapSet(st, m, mv, fr.val(x.Key), fr.val(x.Value))
}

func (fr *Frame) mapSet(st *State, m *types.Map, mv, k, v string) *State {
	vc := fr.vc
	hv := vc.mapHeapVar(m)
	ms := vc.mapSort(m)
	obj := fmt.Sprintf("(select %s %s)", st.get(hv), mv)
	had := fmt.Sprintf("(select (%s_keys %s) %s)", ms, obj, k)
	size := fmt.Sprintf("(%s_size %s)", ms, obj)
	nsize := ite(had, size, vc.addInt(size, vc.intLitN(1, types.Typ[types.Int])))
	nobj := fmt.Sprintf("(mk_%s (store (%s_keys %s) %s true) (store (%s_vals %s) %s %s) %s)", ms, ms, obj, k, ms, obj, k, v, nsize)
	return fr.setVar(st, hv, fmt.Sprintf("(store %s %s %s)", st.get(hv), mv, nobj))
}

func (fr *Frame) mapDelete(st *State, m *types.Map, mv, k string) *State {
	vc := fr.vc
	hv := vc.mapHeapVar(m)
	ms := vc.mapSort(m)
	obj := fmt.Sprintf("(select %s %s)", st.get(hv), mv)
	had := fmt.Sprintf("(select (%s_keys %s) %s)", ms, obj, k)
	size := fmt.Sprintf("(%s_size %s)", ms, obj)
	nsize := ite(had, vc.subInt(size, vc.intLitN(1, types.Typ[types.Int])), size)
	nobj := fmt.Sprintf("(mk_%s (store (%s_keys %s) %s false) (%s_vals %s) %s)", ms, ms, obj, k, ms, obj, nsize)
	nh := fmt.Sprintf("(store %s %s %s)", st.get(hv), mv, nobj)
	return fr.setVar(st, hv, ite(eq(mv, "0"), st.get(hv), nh))
}

func (fr *Frame) sliceInstr(st *State, g string, x *ssa.Slice) *State {
	vc := fr.vc
	it := types.Typ[types.Int]
	z := vc.intLitN(0, it)
	lo := z
	if x.Low != nil {
		lo = fr.idxTerm(x.Low)
	}
	switch t := x.X.Type().Underlying().(type) {
	case *types.Basic: // string
		s := fr.val(x.X)
		hi := vc.strLen(s)
		if x.High != nil {
			hi = fr.idxTerm(x.High)
		}
		fr.safety("slice", g, and(vc.leInt(z, lo), vc.leInt(lo, hi), vc.leInt(hi, vc.strLen(s))), x.Pos(), "string slice bounds out of range")
		n := fr.defFresh(x, st)
		vc.assume(eq(vc.strLen(n), vc.subInt(hi, lo)))
		if !vc.isBV() {
			if lo == z {
				// prefix: absolute indices coincide
				vc.assume(fmt.Sprintf("(forall ((k Int)) (! (=> (and (<= 0 k) (< k %s)) (= (sat %s k) (sat %s k))) :pattern ((sat %s k))))", hi, n, s, n))
			} else {
				vc.assume(fmt.Sprintf("(forall ((k Int)) (! (=> (and (<= 0 k) (< k (- %s %s))) (= (sat %s k) (sat %s (+ %s k)))) :pattern ((sat %s k))))", hi, lo, n, s, lo, n))
			}
		}
	case *types.Slice:
		s := fr.val(x.X)
		hi := fmt.Sprintf("(slen_ %s)", s)
		if x.High != nil {
			hi = fr.idxTerm(x.High)
		}
		mx := fmt.Sprintf("(scap %s)", s)
		if x.Max != nil {
			mx2 := fr.idxTerm(x.Max)
			fr.safety("slice", g, and(vc.leInt(hi, mx2), vc.leInt(mx2, mx)), x.Pos(), "slice max out of range")
			mx = mx2
		}
		fr.safety("slice", g, and(vc.leInt(z, lo), vc.leInt(lo, hi), vc.leInt(hi, fmt.Sprintf("(scap %s)", s))), x.Pos(), "slice bounds out of range")
		fr.def(x, fmt.Sprintf("(mk-slice (sref %s) %s %s %s)", s, vc.addInt(fmt.Sprintf("(soff %s)", s), lo), vc.subInt(hi, lo), vc.subInt(mx, lo)))
		_ = t
	case *types.Pointer: // *array
		arr := t.Elem().Underlying().(*types.Array)
		base := fr.locOf(st, g, x.X, false, x.Pos())
		if len(base.path) != 0 || base.addr == "" {
			panic(unsupported("slice of nested array"))
		}
		n := vc.intLitN(arr.Len(), it)
		hi := n
		if x.High != nil {
			hi = fr.idxTerm(x.High)
		}
		fr.safety("slice", g, and(vc.leInt(z, lo), vc.leInt(lo, hi), vc.leInt(hi, n)), x.Pos(), "slice bounds out of range")
		fr.def(x, fmt.Sprintf("(mk-slice %s %s %s %s)", base.addr, lo, vc.subInt(hi, lo), vc.subInt(n, lo)))
	default:
		panic(unsupported("Slice on " + x.X.Type().String()))
	}
	return st
}

func (fr *Frame) makeSlice(st *State, g string, x *ssa.MakeSlice) *State {
	vc := fr.vc
	it := types.Typ[types.Int]
	z := vc.intLitN(0, it)
	ln := fr.idxTerm(x.Len)
	cp := fr.idxTerm(x.Cap)
	fr.safety("makesize", g, and(vc.leInt(z, ln), vc.leInt(ln, cp)), x.Pos(), "makeslice: len out of range")
	// `at call make: label: cond` - an assertion at every slice allocation (arg0 = length, arg1 = capacity)
	makeSig := types.NewSignatureType(nil, nil, nil, types.NewTuple(types.NewVar(x.Pos(), nil, "len", it), types.NewVar(x.Pos(), nil, "cap", it)), nil, false)
	fr.callSiteAsserts(st, g, "make", false, []string{ln, cp}, nil, x.Pos(), makeSig)
	var r string
	st, r = fr.alloc(st)
	et := x.Type().Underlying().(*types.Slice).Elem()
	hv := vc.arrHeapVar(et)
	zeroArr := vc.constArray(fmt.Sprintf("(Array %s %s)", vc.goInt(), vc.sortOf(et)), vc.zero(et))
	st = fr.setVar(st, hv, fmt.Sprintf("(store %s %s %s)", st.get(hv), r, zeroArr))
	fr.def(x, fmt.Sprintf("(mk-slice %s %s %s %s)", r, z, ln, cp))
	fr.top().allocSizes = append(fr.top().allocSizes, allocSite{g, ln, cp, x.Pos()})
	return st
}

type allocSite struct {
	guard, ln, cp string
	pos           token.Pos
}

func (fr *Frame) next(st *State, g string, x *ssa.Next) *State {
	vc := fr.vc
	rng := x.Iter.(*ssa.Range)
	tup := x.Type().(*types.Tuple)
	ok := vc.freshConst(fr.name(x)+"_ok", "Bool")
	if x.IsString {
		k := vc.freshConst(fr.name(x)+"_k", vc.sortOf(tup.At(1).Type()))
		v := vc.freshConst(fr.name(x)+"_v", vc.sortOf(tup.At(2).Type()))
		fr.tuples[x] = []string{ok, k, v}
		vc.note("range over string in %s: iteration values unconstrained", fr.fn.String())
		return st
	}
	m := rng.X.Type().Underlying().(*types.Map)
	kt, vt := m.Key(), m.Elem()
	k := vc.freshConst(fr.name(x)+"_k", vc.sortOf(kt))
	v := vc.freshConst(fr.name(x)+"_v", vc.sortOf(vt))
	vc.assume(vc.rangeFact(k, kt))
	vc.assume(vc.rangeFact(v, vt))
	fr.refFacts(k, kt, st)
	fr.refFacts(v, vt, st)
	val, has := fr.mapRead(st, m, fr.val(rng.X), k)
	vc.assume(implies(ok, and(has, eq(v, val))))
	// visited set: a key is produced at most once by one range statement, provided the map is not
	// written inside the loop (the Go specification leaves re-insertion during iteration open)
	if name := fr.visitedVar(rng); name != "" {
		cur := st.get(name)
		next := ite(ok, fmt.Sprintf("(store %s %s true)", cur, k), cur)
		if fr.mapStableInLoop(x, m) {
			vc.assume(implies(ok, not(fmt.Sprintf("(select %s %s)", cur, k))))
			// ghost facts for sums over the range (see mapSumDecls): the visited set is a subset of
			// the key set at every step, and equals it when the range is exhausted
			if !vc.isBV() {
				sub, full := vc.visitedPreds(m)
				obj := fmt.Sprintf("(select %s %s)", st.get(vc.mapHeapVar(m)), fr.val(rng.X))
				vc.assume(fmt.Sprintf("(%s %s %s)", sub, cur, obj))
				vc.assume(implies(ok, fmt.Sprintf("(%s (store %s %s true) %s)", sub, cur, k, obj)))
				vc.assume(implies(not(ok), fmt.Sprintf("(%s %s %s)", full, cur, obj)))
			}
		} else {
			vc.note("range over map in %s: the map may be written inside the loop, keys are not assumed distinct", fr.fn.String())
		}
		st = fr.setVar(st, name, next)
	}
	// a map that yields a key is not empty
	msz := fmt.Sprintf("(%s_size (select %s %s))", vc.mapSort(m), st.get(vc.mapHeapVar(m)), fr.val(rng.X))
	vc.assume(implies(ok, vc.leInt(vc.intLitN(1, types.Typ[types.Int]), msz)))
	fr.tuples[x] = []string{ok, k, v}
	return st
}

// visitedVar: the ghost state variable of a map range statement (top-level frame only), named by
// the ordinal of the statement among the map range statements of the function.
func (fr *Frame) visitedVar(rng *ssa.Range) string {
	if !fr.isTop {
		return ""
	}
	m, ok := rng.X.Type().Underlying().(*types.Map)
	if !ok {
		return ""
	}
	ord := 0
	for _, b := range fr.fn.Blocks {
		for _, in := range b.Instrs {
			if r, ok := in.(*ssa.Range); ok {
				if r == rng {
					name := fmt.Sprintf("RV_%d", ord)
					fr.vc.regStateVar(name, fmt.Sprintf("(Array %s Bool)", fr.vc.sortOf(m.Key())))
					return name
				}
				if _, isMap := r.X.Type().Underlying().(*types.Map); isMap {
					ord++
				}
			}
		}
	}
	return ""
}

// visitedByOrdinal resolves visited(n, k) of a contract.
func (fr *Frame) visitedByOrdinal(n int) (string, types.Type) {
	ord := 0
	for _, b := range fr.fn.Blocks {
		for _, in := range b.Instrs {
			if r, ok := in.(*ssa.Range); ok {
				if m, isMap := r.X.Type().Underlying().(*types.Map); isMap {
					if ord == n {
						return fr.visitedVar(r), m.Key()
					}
					ord++
				}
			}
		}
	}
	return "", nil
}

// mapStableInLoop: the innermost loop containing the Next instruction does not write maps of this type.
func (fr *Frame) mapStableInLoop(x *ssa.Next, m *types.Map) bool {
	prev := fr.vc.eng.prevWrites[fr.vc.unit]
	if prev == nil {
		return false // pass 1
	}
	hv := fr.vc.mapHeapVar(m)
	found := false
	for _, li := range fr.loops {
		if !li.body[x.Block().Index] && li.header != x.Block() {
			continue
		}
		found = true
		ws := fr.loopWrites(li)
		if ws.allHeaps || ws.names[hv] {
			return false
		}
	}
	return found
}

func (fr *Frame) selectInstr(st *State, g string, x *ssa.Select) *State {
	vc := fr.vc
	vc.note("select statement in %s: chosen case and received values unconstrained", fr.fn.String())
	tup := x.Type().(*types.Tuple)
	var res []string
	idx := vc.freshConst(fr.name(x)+"_idx", vc.sortOf(types.Typ[types.Int]))
	n := len(x.States)
	lo := vc.intLitN(0, types.Typ[types.Int])
	if !x.Blocking {
		lo = vc.intLitN(-1, types.Typ[types.Int])
	}
	vc.assume(and(vc.leInt(lo, idx), vc.ltInt(idx, vc.intLitN(int64(n), types.Typ[types.Int]))))
	res = append(res, idx)
	res = append(res, vc.freshConst(fr.name(x)+"_recvok", "Bool"))
	for i := 2; i < tup.Len(); i++ {
		c := vc.freshConst(fmt.Sprintf("%s_r%d", fr.name(x), i), vc.sortOf(tup.At(i).Type()))
		fr.refFacts(c, tup.At(i).Type(), st)
		res = append(res, c)
	}
	fr.tuples[x] = res
	// received values satisfy the declared invariant of their channel type
	ri := 2
	for i, s := range x.States {
		if s.Dir == types.RecvOnly {
			if ci := fr.chanInvFor(s.Chan.Type()); ci != nil && ri < len(res) {
				sel := and(g, eq(idx, vc.intLitN(int64(i), types.Typ[types.Int])), res[1])
				vc.assume(implies(sel, fr.chanInvTerm(ci, st, res[ri], tup.At(ri).Type(), false)))
				if _, isPtr := tup.At(ri).Type().Underlying().(*types.Pointer); isPtr {
					// a closed channel yields the zero value
					vc.assume(implies(and(g, eq(idx, vc.intLitN(int64(i), types.Typ[types.Int])), not(res[1])), eq(res[ri], "0")))
				}
				fr.chanInvTrust(ci, s.Chan.Type())
			}
			ri++
		}
	}
	// sends performed by the select are effects
	for i, s := range x.States {
		if s.Dir == types.SendOnly {
			st = fr.emitChanSend(st, and(g, eq(idx, vc.intLitN(int64(i), types.Typ[types.Int]))), s.Chan, s.Send, true)
		}
	}
	return st
}

func (fr *Frame) chanSend(st *State, g string, x *ssa.Send) *State {
	return fr.emitChanSend(st, g, x.Chan, x.X, false)
}

// chanInvFor: the declared invariant of values sent on channels with this element type, if any.
func (fr *Frame) chanInvFor(ch types.Type) *ChanInv {
	ct, ok := ch.Underlying().(*types.Chan)
	if !ok {
		return nil
	}
	for _, ci := range fr.vc.eng.cs.ChanInvs {
		if types.Identical(deepUnalias(fr.vc.eng.resolveType(ci.Elem, fr.vc.pkg)), deepUnalias(ct.Elem())) {
			return ci
		}
	}
	return nil
}

func (fr *Frame) chanInvTrust(ci *ChanInv, ch types.Type) {
	elem := ch.Underlying().(*types.Chan).Elem()
	fr.vc.trust("channel invariant %s (values of %s): an obligation at every send in a function under contract, assumed for every received value; module-wide scan - %s", ci.Pred, elem.String(), fr.vc.eng.chanInvScan(ci, elem))
}

func (fr *Frame) chanInvTerm(ci *ChanInv, st *State, v string, vt types.Type, goal bool) string {
	t := fr.top()
	env := t.newEnvAt(st)
	env.names["chv__"] = TV{term: v, typ: vt}
	e, err := ParseExpr(ci.Pred + "(chv__)")
	if err != nil {
		panic(bindErr("chaninv " + ci.Src + ": " + err.Error()))
	}
	c := Clause{Label: ci.Pred, Src: "chaninv " + ci.Src, E: e, File: ci.File, Line: ci.Line}
	if goal {
		return t.evalGoal(c, env, "channel invariant")
	}
	return t.evalClause(c, env, "channel invariant")
}

func (fr *Frame) emitChanSend(st *State, g string, ch, v ssa.Value, cond bool) *State {
	if ci := fr.chanInvFor(ch.Type()); ci != nil {
		t := fr.top()
		t.callSeq["chaninv:"+ci.Pred]++
		goal := fr.chanInvTerm(ci, st, fr.val(v), v.Type(), true)
		fr.vc.addObl(&Obligation{Name: fmt.Sprintf("%s#chaninv.%s.%d", fr.vc.unit, ci.Pred, t.callSeq["chaninv:"+ci.Pred]), Kind: "assert", Props: t.props(),
			Guard: g, Goal: goal, Src: "value sent on a channel satisfies " + ci.Pred, File: ci.File, Line: ci.Line})
	}
	// a channel send is recorded as the effect ChanSend(chan, value-as-int) when that effect is declared
	ed := fr.vc.eng.cs.Effects["ChanSend"]
	if ed == nil {
		fr.vc.note("channel send in %s not tracked (no ChanSend effect declared)", fr.fn.String())
		return st
	}
	var vt string
	switch v.Type().Underlying().(type) {
	case *types.Pointer:
		vt = fr.val(v)
	default:
		vt = "0"
	}
	ns := fr.emitEffect(st, "ChanSend", []string{fr.val(ch), vt})
	if cond {
		return mergeStates(fr.vc, []mergeIn{{g, ns}, {not(g), st}})
	}
	return ns
}

func (fr *Frame) runDefers(st *State, g string) *State {
	// executed in reverse order of registration; each Defer instruction is assumed to run at most once
	for i := len(fr.defers) - 1; i >= 0; i-- {
		d := fr.defers[i]
		if fr.inLoop(d.block) {
			// a defer statement inside a loop registers an unknown number of calls: at exit the
			// callee's effects and modifies are havoc'ed (its ensures are not used)
			callee := d.instr.Call.StaticCallee()
			var fc *FuncContract
			if callee != nil {
				fc = fr.vc.eng.contractFor(callee)
				if fc == nil {
					fc = fr.vc.eng.lookupExtern(canonFunc(callee), "extern")
				}
			}
			if fc == nil {
				panic(unsupported("defer inside a loop of a callee without contract"))
			}
			fr.vc.note("defer of %s inside a loop in %s: executed an unknown number of times at exit (effects/modifies havoc'ed)", fc.Name, fr.fn.String())
			names := map[string]bool{}
			allGhost := false
			for _, e := range fc.Effects {
				if e == "*" {
					allGhost = true
					continue
				}
				cnt, tm, avs := fr.vc.effectVars(e)
				names[cnt], names[tm] = true, true
				for _, a := range avs {
					names[a] = true
				}
			}
			for _, eu := range fc.EmitsEff {
				cnt, tm, avs := fr.vc.effectVars(eu.Name)
				names[cnt], names[tm] = true, true
				for _, a := range avs {
					names[a] = true
				}
			}
			names[fr.vc.clkVar()] = true
			heaps := false
			for _, m := range fc.Modifies {
				if m != "" && m != "nothing" {
					heaps = true
				}
			}
			for n := range names {
				fr.recordWrite(n)
			}
			fr.recordHavocAll(heaps, allGhost)
			st = st.havoc(fr.vc.fresh("deferloop"), names, heaps, allGhost)
			continue
		}
		cg := and(g, d.guard)
		st2, _ := fr.callCommon(st, cg, d.instr, &d.instr.Call, d.instr.Pos(), d.args)
		st = mergeStates(fr.vc, []mergeIn{{d.guard, st2}, {not(d.guard), st}})
	}
	return st
}

func (fr *Frame) inLoop(block int) bool {
	for _, li := range fr.loops {
		if li.body[block] {
			return true
		}
	}
	return false
}

// retype converts a value between types with identical underlying types but
// different names (struct conversions get a different datatype).
func (vc *VC) retype(term string, from, to types.Type) string {
	fs, ok1 := from.Underlying().(*types.Struct)
	ts, ok2 := to.Underlying().(*types.Struct)
	if !ok1 || !ok2 || vc.sortOf(from) == vc.sortOf(to) {
		return term
	}
	var vals []string
	for i := 0; i < fs.NumFields() && i < ts.NumFields(); i++ {
		fv := fmt.Sprintf("(%s %s)", vc.fieldAcc(from, i), term)
		vals = append(vals, vc.retype(fv, fs.Field(i).Type(), ts.Field(i).Type()))
	}
	return vc.structMake(to, vals)
}

func (vc *VC) clauseLemmas(c Clause) []string {
	var out []string
	for _, u := range c.Uses {
		t, ok := vc.lemmaTerms[u]
		if !ok {
			panic(bindErr("clause uses lemma " + u + " which is not listed in the function's `lemmas` clause"))
		}
		out = append(out, t)
	}
	return out
}

// stableGlobalSliceLen decides, over the SSA of the defining package, whether the unexported package-level
// slice variable gl has one length for the whole run: every use of the variable in every function of the
// package (closures included) is a load, except exactly one store, in the package initialiser, of a
// make([]T, k) with constant k. An unexported variable cannot be named by another package and its address
// is never taken here, so no other store exists.
var stableLenCache = map[*ssa.Global]int64{}

func stableGlobalSliceLen(gl *ssa.Global) (int64, bool) {
	if k, ok := stableLenCache[gl]; ok {
		return k, k >= 0
	}
	stableLenCache[gl] = -1
	if gl.Object() == nil || gl.Object().Exported() {
		return 0, false
	}
	if _, ok := gl.Type().(*types.Pointer).Elem().Underlying().(*types.Slice); !ok {
		return 0, false
	}
	var fns []*ssa.Function
	var add func(f *ssa.Function)
	add = func(f *ssa.Function) {
		fns = append(fns, f)
		for _, a := range f.AnonFuncs {
			add(a)
		}
	}
	for _, m := range gl.Pkg.Members {
		switch m := m.(type) {
		case *ssa.Function:
			add(m)
		case *ssa.Type:
			for _, t := range []types.Type{m.Type(), types.NewPointer(m.Type())} {
				ms := gl.Pkg.Prog.MethodSets.MethodSet(t)
				for i := 0; i < ms.Len(); i++ {
					if f := gl.Pkg.Prog.MethodValue(ms.At(i)); f != nil && f.Pkg == gl.Pkg {
						add(f)
					}
				}
			}
		}
	}
	stores := 0
	var k int64 = -1
	for _, f := range fns {
		for _, b := range f.Blocks {
			for _, in := range b.Instrs {
				for _, op := range in.Operands(nil) {
					if *op != ssa.Value(gl) {
						continue
					}
					switch x := in.(type) {
					case *ssa.UnOp:
						if x.Op != token.MUL {
							return 0, false
						}
					case *ssa.Store:
						if x.Addr != ssa.Value(gl) || f != gl.Pkg.Func("init") {
							return 0, false
						}
						switch mk := x.Val.(type) {
						case *ssa.MakeSlice:
							c, ok := mk.Len.(*ssa.Const)
							if !ok || c.Value == nil {
								return 0, false
							}
							k = c.Int64()
						case *ssa.Slice:
							// go/ssa lowers make([]T, k) with constant k to new([k]T)[:]
							al, ok := mk.X.(*ssa.Alloc)
							if !ok || mk.Low != nil || mk.Max != nil {
								return 0, false
							}
							arr, ok := al.Type().(*types.Pointer).Elem().Underlying().(*types.Array)
							if !ok {
								return 0, false
							}
							k = arr.Len()
							if mk.High != nil {
								c, ok := mk.High.(*ssa.Const)
								if !ok || c.Value == nil || c.Int64() < 0 || c.Int64() > k {
									return 0, false
								}
								k = c.Int64()
							}
						default:
							return 0, false
						}
						stores++
					case *ssa.DebugRef:
					default:
						return 0, false
					}
				}
			}
		}
	}
	if stores != 1 || k < 0 {
		return 0, false
	}
	stableLenCache[gl] = k
	return k, true
}
