package main

// Discharging obligations: race z3 4.8.12, z3 5.1.0 (z3-new) and cvc5.

import (
	"bytes"
	"context"
	"fmt"
	"os"
	"os/exec"
	"path/filepath"
	"strings"
	"sync"
	"time"
)

type solverRes struct {
	backend string
	status  string // unsat sat unknown timeout error
	out     string
	secs    float64
}

type Solvers struct {
	scratch string
	timeout time.Duration
	agree   int // number of back ends that must say unsat (thorough: 2)
	mu      sync.Mutex
	n       int
	stats   map[string]*backendStat
}

type backendStat struct {
	Won   int     `json:"decided"`
	Secs  float64 `json:"solver_seconds"`
	Calls int     `json:"calls"`
}

func NewSolvers(scratch string, timeout time.Duration, agree int) *Solvers {
	return &Solvers{scratch: scratch, timeout: timeout, agree: agree, stats: map[string]*backendStat{}}
}

func (s *Solvers) cmd(ctx context.Context, backend, file string, to time.Duration) *exec.Cmd {
	secs := int(to.Seconds())
	if secs < 1 {
		secs = 1
	}
	switch backend {
	case "z3":
		return exec.CommandContext(ctx, "z3", "-smt2", fmt.Sprintf("-T:%d", secs), file)
	case "z3-new":
		return exec.CommandContext(ctx, "z3-new", "-smt2", fmt.Sprintf("-T:%d", secs), file)
	case "cvc5":
		return exec.CommandContext(ctx, "cvc5", "--lang", "smt2", fmt.Sprintf("--tlimit=%d", secs*1000), "--produce-models", file)
	}
	panic("unknown backend " + backend)
}

func classify(out string) string {
	res := ""
	for _, line := range strings.Split(out, "\n") {
		line = strings.TrimSpace(line)
		switch {
		case line == "unsat" || line == "sat" || line == "unknown" || line == "timeout":
			if res == "" {
				res = line
			}
		case strings.HasPrefix(line, "(error"):
			if strings.Contains(line, "model is not available") || strings.Contains(line, "Cannot get value") || strings.Contains(line, "cannot get value") {
				continue
			}
			return "error"
		}
	}
	if res == "" {
		return "unknown"
	}
	return res
}

// run races the back ends on one script. Returns the deciding result and all results seen.
func (s *Solvers) run(name, script string, wantModel bool) (solverRes, []solverRes) {
	return s.runWith(name, script, s.timeout, s.agree)
}

func (s *Solvers) runWith(name, script string, timeout time.Duration, agree int) (solverRes, []solverRes) {
	s.mu.Lock()
	s.n++
	id := s.n
	s.mu.Unlock()
	base := filepath.Join(s.scratch, fmt.Sprintf("q%05d", id))
	file := base + ".smt2"
	// cvc5 needs a logic; z3 does better without one for mixed theories
	os.WriteFile(file, []byte(script), 0644)
	cvcFile := base + ".cvc5.smt2"
	cvcScript := strings.Replace(script, "(set-option :produce-models true)\n", "(set-option :produce-models true)\n(set-logic ALL)\n", 1)
	os.WriteFile(cvcFile, []byte(cvcScript), 0644)
	defer func() {
		os.Remove(file)
		os.Remove(cvcFile)
	}()
	backends := []string{"z3-new", "z3", "cvc5"}
	ctx, cancel := context.WithCancel(context.Background())
	defer cancel()
	ch := make(chan solverRes, len(backends))
	for _, b := range backends {
		b := b
		go func() {
			f := file
			if b == "cvc5" {
				f = cvcFile
			}
			t0 := time.Now()
			cmd := s.cmd(ctx, b, f, timeout)
			var out bytes.Buffer
			cmd.Stdout = &out
			cmd.Stderr = &out
			cmd.Run()
			st := classify(out.String())
			if ctx.Err() != nil && st != "unsat" && st != "sat" {
				st = "cancelled"
			}
			ch <- solverRes{backend: b, status: st, out: out.String(), secs: time.Since(t0).Seconds()}
		}()
	}
	var all []solverRes
	var decided *solverRes
	unsats := 0
	for i := 0; i < len(backends); i++ {
		r := <-ch
		all = append(all, r)
		s.mu.Lock()
		bs := s.stats[r.backend]
		if bs == nil {
			bs = &backendStat{}
			s.stats[r.backend] = bs
		}
		bs.Calls++
		bs.Secs += r.secs
		s.mu.Unlock()
		if r.status == "unsat" {
			unsats++
			if decided == nil || decided.status != "unsat" {
				rr := r
				decided = &rr
			}
			if unsats >= agree {
				break
			}
		}
		if r.status == "sat" {
			rr := r
			decided = &rr
			break
		}
	}
	cancel()
	if decided == nil {
		// nobody decided: report the most informative
		best := all[0]
		for _, r := range all {
			if r.status == "unknown" || r.status == "timeout" {
				best = r
			}
		}
		return best, all
	}
	if decided.status == "unsat" && unsats < agree {
		// not enough agreement: still unsat by one back end; check nobody said sat
		for _, r := range all {
			if r.status == "sat" {
				return r, all
			}
		}
	}
	s.mu.Lock()
	s.stats[decided.backend].Won++
	s.mu.Unlock()
	return *decided, all
}

// parseValues parses the output of (get-value (...)) into term->value strings.
func parseValues(out string) map[string]string {
	res := map[string]string{}
	i := strings.Index(out, "((")
	if i < 0 {
		return res
	}
	s := out[i:]
	// parse one s-expression list of pairs
	pos := 0
	var parse func() interface{}
	skip := func() {
		for pos < len(s) && (s[pos] == ' ' || s[pos] == '\n' || s[pos] == '\t' || s[pos] == '\r') {
			pos++
		}
	}
	parse = func() interface{} {
		skip()
		if pos >= len(s) {
			return nil
		}
		if s[pos] == '(' {
			pos++
			var items []interface{}
			for {
				skip()
				if pos >= len(s) {
					return items
				}
				if s[pos] == ')' {
					pos++
					return items
				}
				items = append(items, parse())
			}
		}
		st := pos
		if s[pos] == '|' {
			pos++
			for pos < len(s) && s[pos] != '|' {
				pos++
			}
			pos++
			return s[st:pos]
		}
		for pos < len(s) && s[pos] != ' ' && s[pos] != '\n' && s[pos] != ')' && s[pos] != '(' {
			pos++
		}
		return s[st:pos]
	}
	var render func(x interface{}) string
	render = func(x interface{}) string {
		switch v := x.(type) {
		case string:
			return v
		case []interface{}:
			var parts []string
			for _, it := range v {
				parts = append(parts, render(it))
			}
			return "(" + strings.Join(parts, " ") + ")"
		}
		return ""
	}
	top, ok := parse().([]interface{})
	if !ok {
		return res
	}
	for _, p := range top {
		pair, ok := p.([]interface{})
		if !ok || len(pair) != 2 {
			continue
		}
		res[render(pair[0])] = render(pair[1])
	}
	return res
}

// discharge runs all obligations with a worker pool.
func (s *Solvers) discharge(obls []*Obligation, workers int) {
	var wg sync.WaitGroup
	ch := make(chan *Obligation)
	for w := 0; w < workers; w++ {
		wg.Add(1)
		go func() {
			defer wg.Done()
			for o := range ch {
				s.dischargeOne(o)
			}
		}()
	}
	for _, o := range obls {
		ch <- o
	}
	close(ch)
	wg.Wait()
}

func (s *Solvers) dischargeOne(o *Obligation) {
	script := o.vc.script(o, "")
	if o.MustFail {
		// vacuity probes: any answer but unsat is fine; keep them cheap
		to := 3 * time.Second
		r, _ := s.runWith(o.Name, script, to, 1)
		o.Backend, o.Time = r.backend, r.secs
		if r.status == "unsat" {
			o.Status = "vacuous"
		} else {
			o.Status = "discharged"
		}
		return
	}
	if o.quickOnly {
		// Houdini candidates: an undecided candidate is simply dropped
		r, _ := s.runWith(o.Name, script, 3*time.Second, 1)
		o.Backend, o.Time = r.backend, r.secs
		if r.status == "unsat" {
			o.Status = "discharged"
		} else {
			o.Status = "unknown"
		}
		return
	}
	r, all := s.run(o.Name, script, true)
	o.Backend = r.backend
	o.Time = r.secs
	switch r.status {
	case "unsat":
		o.Status = "discharged"
	case "sat":
		o.Status = "refuted"
		o.Model = parseValues(r.out)
		o.Output = r.out
		// prefer a small model for replay
		if len(o.vc.smallHints) > 0 && !o.MustFail {
			o.small = true
			rs, _ := s.runWith(o.Name, o.vc.script(o, ""), s.timeout, 1)
			o.small = false
			if rs.status == "sat" {
				o.Model = parseValues(rs.out)
				o.Output = rs.out
			}
		}
	default:
		// one retry with 4x timeout
		r2, all2 := s.runWith(o.Name, script, s.timeout*4, 1)
		o.Backend, o.Time = r2.backend, r.secs+r2.secs
		switch r2.status {
		case "unsat":
			o.Status = "discharged"
		case "sat":
			o.Status = "refuted"
			o.Model = parseValues(r2.out)
			o.Output = r2.out
		default:
			o.Status = "unknown"
			allErr := true
			for _, a := range append(append([]solverRes(nil), all...), all2...) {
				if a.status != "error" && a.status != "cancelled" {
					allErr = false
				}
			}
			if allErr {
				o.Status = "error"
			}
			var sb strings.Builder
			for _, a := range append(all, all2...) {
				fmt.Fprintf(&sb, "[%s %.1fs] %s\n", a.backend, a.secs, firstLines(a.out, 3))
			}
			o.Output = sb.String()
		}
	}
	if o.MustFail {
		// vacuity probes: sat (or unknown) is the good outcome
		switch o.Status {
		case "refuted", "unknown":
			o.Status = "discharged"
		case "discharged":
			o.Status = "vacuous"
		}
	}
}

func firstLines(s string, n int) string {
	lines := strings.Split(strings.TrimSpace(s), "\n")
	if len(lines) > n {
		lines = lines[:n]
	}
	return strings.Join(lines, " | ")
}
