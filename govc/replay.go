package main

// Replay of solver models against the real code (generic driver for
// first-order signatures). Filled in incrementally.

type replayResult struct {
	test       string
	output     string
	reproduced bool
	note       string
}

func tryReplay(eng *Engine, verif string, o *Obligation) *replayResult {
	return nil
}
