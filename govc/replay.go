package main

// Replay of solver models against the real code: generic driver for
// functions whose inputs can be rebuilt from the model (integers, booleans,
// strings, pointers to structs of those, slices of those). The contract's
// ensures clauses are compiled to Go and evaluated on the real result.

import (
	"bytes"
	"context"
	"encoding/json"
	"fmt"
	"go/types"
	"math/big"
	"os"
	"os/exec"
	"path/filepath"
	"strings"
	"time"

	"golang.org/x/tools/go/ssa"
)

type replayResult struct {
	test       string
	output     string
	reproduced bool
	note       string
}

const maxStrReplay = 24
const maxSliceReplay = 6

// wantParamValues registers the model terms needed to rebuild the inputs.
func (fr *Frame) wantParamValues(entry *State) {
	for _, p := range fr.fn.Params {
		fr.wantTerm(fr.val(p), p.Type(), 0, entry)
	}
}

func (fr *Frame) wantTerm(term string, t types.Type, depth int, st *State) {
	vc := fr.vc
	if depth > 3 {
		return
	}
	switch u := t.Underlying().(type) {
	case *types.Basic:
		switch {
		case u.Info()&types.IsString != 0:
			vc.wantValue(fmt.Sprintf("(slen %s)", term))
			vc.smallHints = append(vc.smallHints, vc.leInt(fmt.Sprintf("(slen %s)", term), vc.intLitN(8, types.Typ[types.Int])))
			for i := 0; i < maxStrReplay; i++ {
				vc.wantValue(fmt.Sprintf("(sat %s %s)", term, vc.intLitN(int64(i), types.Typ[types.Int])))
			}
		case u.Info()&(types.IsInteger|types.IsBoolean) != 0:
			vc.wantValue(term)
		}
	case *types.Pointer:
		vc.wantValue(term)
		if st, ok := u.Elem().Underlying().(*types.Struct); ok {
			hv := vc.heapVar(u.Elem())
			obj := fmt.Sprintf("(select %s %s)", fr.entryState().get(hv), term)
			for i := 0; i < st.NumFields(); i++ {
				fr.wantTerm(fmt.Sprintf("(%s %s)", vc.fieldAcc(u.Elem(), i), obj), st.Field(i).Type(), depth+1, nil)
			}
		}
	case *types.Slice:
		for _, acc := range []string{"sref", "soff", "slen_", "scap"} {
			vc.wantValue(fmt.Sprintf("(%s %s)", acc, term))
		}
		hv := vc.arrHeapVar(u.Elem())
		vc.smallHints = append(vc.smallHints, vc.leInt(fmt.Sprintf("(scap %s)", term), vc.intLitN(5, types.Typ[types.Int])))
		arr := fmt.Sprintf("(select %s (sref %s))", fr.entryState().get(hv), term)
		for i := 0; i < maxSliceReplay; i++ {
			idx := vc.addInt(fmt.Sprintf("(soff %s)", term), vc.intLitN(int64(i), types.Typ[types.Int]))
			fr.wantTerm(fmt.Sprintf("(select %s %s)", arr, idx), u.Elem(), depth+1, nil)
		}
	case *types.Struct:
		for i := 0; i < u.NumFields(); i++ {
			fr.wantTerm(fmt.Sprintf("(%s %s)", vc.fieldAcc(t, i), term), u.Field(i).Type(), depth+1, nil)
		}
	}
}

func (fr *Frame) entryState() *State { return fr.entry }

// ---------------------------------------------------------------- model values

func parseModelInt(s string) (*big.Int, bool) {
	s = strings.TrimSpace(s)
	switch {
	case strings.HasPrefix(s, "#x"):
		v, ok := new(big.Int).SetString(s[2:], 16)
		return v, ok
	case strings.HasPrefix(s, "#b"):
		v, ok := new(big.Int).SetString(s[2:], 2)
		return v, ok
	case strings.HasPrefix(s, "(- ") && strings.HasSuffix(s, ")"):
		v, ok := new(big.Int).SetString(strings.TrimSpace(s[3:len(s)-1]), 10)
		if ok {
			v.Neg(v)
		}
		return v, ok
	case strings.HasPrefix(s, "(_ bv"):
		f := strings.Fields(s[5:])
		v, ok := new(big.Int).SetString(f[0], 10)
		return v, ok
	}
	v, ok := new(big.Int).SetString(s, 10)
	return v, ok
}

type rebuilder struct {
	vc     *VC
	fr     *Frame
	model  map[string]string
	pkg    *types.Package
	decls  []string
	byAddr map[string]string // type+address -> variable
	n      int
	err    string
}

func (rb *rebuilder) qual(p *types.Package) string {
	if p == rb.pkg {
		return ""
	}
	return p.Name()
}

func (rb *rebuilder) intVal(term string, t types.Type) (*big.Int, bool) {
	s, ok := rb.model[term]
	if !ok {
		return nil, false
	}
	v, ok := parseModelInt(s)
	if !ok {
		return nil, false
	}
	if w, signed, isInt := intInfo(t); isInt && signed && rb.vc.isBV() {
		if v.Cmp(pow2(w-1)) >= 0 {
			v.Sub(v, pow2(w))
		}
	}
	return v, true
}

// goValue returns a Go expression for the model value of term (of Go type t).
func (rb *rebuilder) goValue(term string, t types.Type, depth int) (string, bool) {
	vc := rb.vc
	ts := types.TypeString(t, rb.qual)
	switch u := t.Underlying().(type) {
	case *types.Basic:
		switch {
		case u.Info()&types.IsBoolean != 0:
			s, ok := rb.model[term]
			if !ok {
				return "false", true
			}
			return s, s == "true" || s == "false"
		case u.Info()&types.IsString != 0:
			n, ok := rb.intVal(fmt.Sprintf("(slen %s)", term), types.Typ[types.Int])
			if !ok {
				return `""`, true
			}
			if n.Int64() > maxStrReplay || n.Sign() < 0 {
				rb.err = fmt.Sprintf("model string of length %s exceeds the replay limit", n)
				return "", false
			}
			var bs []byte
			for i := int64(0); i < n.Int64(); i++ {
				c, ok := rb.intVal(fmt.Sprintf("(sat %s %s)", term, vc.intLitN(i, types.Typ[types.Int])), types.Typ[types.Uint8])
				if !ok {
					c = big.NewInt('a')
				}
				bs = append(bs, byte(c.Int64()))
			}
			return fmt.Sprintf("%s(%q)", ts, string(bs)), true
		case u.Info()&types.IsInteger != 0:
			v, ok := rb.intVal(term, t)
			if !ok {
				return fmt.Sprintf("%s(0)", ts), true
			}
			return fmt.Sprintf("%s(%s)", ts, v.String()), true
		}
	case *types.Pointer:
		a, ok := rb.intVal(term, types.Typ[types.Int])
		if !ok || a.Sign() == 0 {
			return "nil", true
		}
		key := ts + "@" + a.String()
		if v, ok := rb.byAddr[key]; ok {
			return v, true
		}
		st, isStruct := u.Elem().Underlying().(*types.Struct)
		if !isStruct || depth > 3 {
			rb.err = "pointer to non-struct in model"
			return "", false
		}
		rb.n++
		name := fmt.Sprintf("obj%d", rb.n)
		rb.byAddr[key] = name
		hv := vc.heapVar(u.Elem())
		obj := fmt.Sprintf("(select %s %s)", rb.fr.entry.get(hv), term)
		var fields []string
		for i := 0; i < st.NumFields(); i++ {
			f := st.Field(i)
			if !f.Exported() && f.Pkg() != rb.pkg {
				continue
			}
			switch f.Type().Underlying().(type) {
			case *types.Map, *types.Chan, *types.Signature, *types.Interface:
				continue
			}
			if named, ok := f.Type().(*types.Named); ok && named.Obj().Pkg() != nil && strings.Contains(named.Obj().Pkg().Path(), "protoimpl") {
				continue
			}
			gv, ok := rb.goValue(fmt.Sprintf("(%s %s)", vc.fieldAcc(u.Elem(), i), obj), f.Type(), depth+1)
			if !ok {
				return "", false
			}
			fields = append(fields, fmt.Sprintf("%s: %s", f.Name(), gv))
		}
		rb.decls = append(rb.decls, fmt.Sprintf("%s := &%s{%s}", name, types.TypeString(u.Elem(), rb.qual), strings.Join(fields, ", ")))
		return name, true
	case *types.Slice:
		ref, ok := rb.intVal(fmt.Sprintf("(sref %s)", term), types.Typ[types.Int])
		if !ok || ref.Sign() == 0 {
			return "nil", true
		}
		n, _ := rb.intVal(fmt.Sprintf("(slen_ %s)", term), types.Typ[types.Int])
		c, _ := rb.intVal(fmt.Sprintf("(scap %s)", term), types.Typ[types.Int])
		if n == nil || c == nil || n.Int64() > maxSliceReplay || c.Int64() > 1<<20 {
			rb.err = "model slice too long for replay"
			return "", false
		}
		hv := vc.arrHeapVar(u.Elem())
		arr := fmt.Sprintf("(select %s (sref %s))", rb.fr.entry.get(hv), term)
		var elems []string
		for i := int64(0); i < n.Int64(); i++ {
			idx := vc.addInt(fmt.Sprintf("(soff %s)", term), vc.intLitN(i, types.Typ[types.Int]))
			gv, ok := rb.goValue(fmt.Sprintf("(select %s %s)", arr, idx), u.Elem(), depth+1)
			if !ok {
				return "", false
			}
			elems = append(elems, gv)
		}
		return fmt.Sprintf("append(make(%s, 0, %d), %s{%s}...)", ts, c.Int64(), ts, strings.Join(elems, ", ")), true
	case *types.Struct:
		var fields []string
		for i := 0; i < u.NumFields(); i++ {
			f := u.Field(i)
			if !f.Exported() && f.Pkg() != rb.pkg {
				continue
			}
			gv, ok := rb.goValue(fmt.Sprintf("(%s %s)", vc.fieldAcc(t, i), term), f.Type(), depth+1)
			if !ok {
				return "", false
			}
			fields = append(fields, fmt.Sprintf("%s: %s", f.Name(), gv))
		}
		return fmt.Sprintf("%s{%s}", ts, strings.Join(fields, ", ")), true
	}
	rb.err = "parameter type " + ts + " cannot be rebuilt from a model"
	return "", false
}

// ---------------------------------------------------------------- contract -> Go

type goGen struct {
	eng    *Engine
	preds  map[string]bool
	order  []string
	olds   []string // old snapshots: "oldK := expr"
	ok     bool
	reason string
	inOld  bool
}

func (g *goGen) fail(why string) string {
	g.ok = false
	if g.reason == "" {
		g.reason = why
	}
	return "false"
}

func (g *goGen) typeStr(t TypeExpr) string {
	if t.Name == "mathint" {
		return "int"
	}
	return t.String()
}

func (g *goGen) expr(e Expr) string {
	switch n := e.(type) {
	case ENum:
		return n.Text
	case EBool:
		return fmt.Sprint(n.Val)
	case EStr:
		return fmt.Sprintf("%q", n.Val)
	case EChar:
		return fmt.Sprintf("byte(%d)", n.Val)
	case ENil:
		return "nil"
	case EIdent:
		return n.Name
	case EUnary:
		return "(" + n.Op + g.expr(n.X) + ")"
	case EBinary:
		switch n.Op {
		case "==>":
			return "(!(" + g.expr(n.X) + ") || (" + g.expr(n.Y) + "))"
		case "<==>":
			return "((" + g.expr(n.X) + ") == (" + g.expr(n.Y) + "))"
		}
		return "(" + g.expr(n.X) + " " + n.Op + " " + g.expr(n.Y) + ")"
	case ESel:
		return g.expr(n.X) + "." + n.Sel
	case EIndex:
		return g.expr(n.X) + "[" + g.expr(n.I) + "]"
	case EType:
		return n.T.String()
	case ECall:
		if id, ok := n.Fun.(EIdent); ok {
			switch id.Name {
			case "old":
				k := len(g.olds)
				was := g.inOld
				g.inOld = true
				g.olds = append(g.olds, fmt.Sprintf("govcOld%d := %s", k, g.expr(n.Args[0])))
				g.inOld = was
				return fmt.Sprintf("govcOld%d", k)
			case "ite":
				return fmt.Sprintf("govcIte(%s, %s, %s)", g.expr(n.Args[0]), g.expr(n.Args[1]), g.expr(n.Args[2]))
			case "len", "cap":
				return id.Name + "(" + g.expr(n.Args[0]) + ")"
			case "cnt", "when", "arg", "clk", "fresh", "ref", "off", "haskey", "mapobj", "typeis", "dyn", "asptr", "isptr", "ptr", "rawat":
				return g.fail("contract uses ghost/heap construct " + id.Name + " that has no executable counterpart")
			}
			if pd, ok := g.eng.cs.Preds[id.Name]; ok {
				g.needPred(pd)
				var as []string
				for _, a := range n.Args {
					as = append(as, g.expr(a))
				}
				return "govcSpec_" + id.Name + "(" + strings.Join(as, ", ") + ")"
			}
		}
		var as []string
		for _, a := range n.Args {
			as = append(as, g.expr(a))
		}
		return g.expr(n.Fun) + "(" + strings.Join(as, ", ") + ")"
	case EQuant:
		if len(n.Vars) != 1 {
			return g.fail("multi-variable quantifier")
		}
		v := n.Vars[0]
		lo, hi, ok := quantRange(n, v.Name)
		if !ok {
			return g.fail("quantifier without an explicit integer range")
		}
		fn := "govcForall"
		if !n.Forall {
			fn = "govcExists"
		}
		return fmt.Sprintf("%s(int(%s), int(%s), func(govcV int) bool { %s := %s(govcV); _ = %s; return %s })", fn, g.expr(lo), g.expr(hi), v.Name, g.typeStr(v.T), v.Name, g.expr(n.Body))
	}
	return g.fail(fmt.Sprintf("expression %T has no executable counterpart", e))
}

// quantRange extracts inclusive bounds [lo, hi] for the bound variable.
func quantRange(q EQuant, v string) (lo, hi Expr, ok bool) {
	var conj []Expr
	var flatten func(e Expr)
	flatten = func(e Expr) {
		if b, isB := e.(EBinary); isB && b.Op == "&&" {
			flatten(b.X)
			flatten(b.Y)
			return
		}
		conj = append(conj, e)
	}
	if q.Forall {
		b, isB := q.Body.(EBinary)
		if !isB || b.Op != "==>" {
			return nil, nil, false
		}
		flatten(b.X)
	} else {
		flatten(q.Body)
	}
	isV := func(e Expr) bool { id, ok := e.(EIdent); return ok && id.Name == v }
	mentions := func(e Expr) bool {
		m := false
		walkExpr(e, func(x Expr) {
			if isV(x) {
				m = true
			}
		})
		return m
	}
	for _, c := range conj {
		b, isB := c.(EBinary)
		if !isB {
			continue
		}
		switch {
		case b.Op == "<=" && isV(b.Y) && !mentions(b.X) && lo == nil:
			lo = b.X
		case b.Op == "<" && isV(b.Y) && !mentions(b.X) && lo == nil:
			lo = EBinary{"+", b.X, ENum{"1"}}
		case b.Op == ">=" && isV(b.X) && !mentions(b.Y) && lo == nil:
			lo = b.Y
		case b.Op == "<" && isV(b.X) && !mentions(b.Y) && hi == nil:
			hi = EBinary{"-", b.Y, ENum{"1"}}
		case b.Op == "<=" && isV(b.X) && !mentions(b.Y) && hi == nil:
			hi = b.Y
		}
	}
	return lo, hi, lo != nil && hi != nil
}

func (g *goGen) needPred(pd *PredDecl) {
	if g.preds[pd.Name] {
		return
	}
	g.preds[pd.Name] = true
	var ps []string
	for _, p := range pd.Params {
		ps = append(ps, p.Name+" "+g.typeStr(p.T))
	}
	body := g.expr(pd.Body)
	g.order = append(g.order, fmt.Sprintf("func govcSpec_%s(%s) %s { return %s }", pd.Name, strings.Join(ps, ", "), g.typeStr(pd.Result), body))
}

const replayPrelude = `
func govcIte[T any](c bool, a, b T) T { if c { return a }; return b }
func govcForall(lo, hi int, f func(int) bool) bool { for i := lo; i <= hi; i++ { if !f(i) { return false } }; return true }
func govcExists(lo, hi int, f func(int) bool) bool { for i := lo; i <= hi; i++ { if f(i) { return true } }; return false }
`

// ---------------------------------------------------------------- driver

func tryReplay(eng *Engine, verif string, o *Obligation) *replayResult {
	vc := o.vc
	if vc == nil || vc.replayFrame == nil || o.Model == nil {
		return nil
	}
	fr := vc.replayFrame
	fn := fr.fn
	fc := fr.fc
	if fn == nil || fc == nil || fn.Pkg == nil || fn.Parent() != nil {
		return &replayResult{note: "no generic replay driver for closures / functions without package"}
	}
	// never execute functions that perform external effects (real syscalls on model paths) in a generic replay
	if len(fc.Effects) > 0 {
		return &replayResult{note: "function performs external effects; a generic replay would issue real syscalls with model arguments — not executed"}
	}
	for _, m := range fc.Modifies {
		if m == "heap" || m == "all" {
			return &replayResult{note: "function calls code without contracts; no generic replay"}
		}
	}
	rb := &rebuilder{vc: vc, fr: fr, model: o.Model, pkg: fn.Pkg.Pkg, byAddr: map[string]string{}}
	var args []string
	var recv string
	for i, p := range fn.Params {
		gv, ok := rb.goValue(fr.val(p), p.Type(), 0)
		if !ok {
			return &replayResult{note: "model not replayable: " + rb.err}
		}
		name := "in_" + sanitize(p.Name())
		rb.decls = append(rb.decls, fmt.Sprintf("%s := %s", name, gv), fmt.Sprintf("_ = %s", name))
		if i == 0 && fn.Signature.Recv() != nil {
			recv = name
			continue
		}
		args = append(args, name)
	}
	g := &goGen{eng: eng, preds: map[string]bool{}, ok: true}
	// bind parameter names used in contracts to the input variables
	var binds []string
	for _, p := range fn.Params {
		if p.Name() != "" && p.Name() != "_" {
			binds = append(binds, fmt.Sprintf("%s := in_%s; _ = %s", p.Name(), sanitize(p.Name()), p.Name()))
		}
	}
	// checks
	type chk struct{ label, code, src string }
	var checks []chk
	for k, c := range fc.Ensures {
		g.ok, g.reason = true, ""
		code := g.expr(c.E)
		label := c.Label
		if label == "" {
			label = fmt.Sprint(k)
		}
		if !g.ok {
			continue
		}
		checks = append(checks, chk{label, code, c.Src})
	}
	var reqs []chk
	for k, c := range fc.Requires {
		g.ok, g.reason = true, ""
		code := g.expr(c.E)
		if !g.ok {
			return &replayResult{note: "precondition `" + c.Src + "` has no executable counterpart; model not replayed"}
		}
		reqs = append(reqs, chk{fmt.Sprint(k), code, c.Src})
	}
	nres := fn.Signature.Results().Len()
	var resNames []string
	var resBinds []string
	for i := 0; i < nres; i++ {
		rn := fmt.Sprintf("result%d", i)
		resNames = append(resNames, rn)
		resBinds = append(resBinds, fmt.Sprintf("_ = %s", rn))
		if i == 0 {
			resBinds = append(resBinds, "result := result0; _ = result")
		}
		if n := fn.Signature.Results().At(i).Name(); n != "" && n != "_" {
			resBinds = append(resBinds, fmt.Sprintf("%s := %s; _ = %s", n, rn, n))
		}
	}
	call := fn.Name() + "(" + strings.Join(args, ", ") + ")"
	if recv != "" {
		call = recv + "." + fn.Name() + "(" + strings.Join(args, ", ") + ")"
	}
	if nres > 0 {
		call = strings.Join(resNames, ", ") + " := " + call
	}
	var sb strings.Builder
	fmt.Fprintf(&sb, "package %s\n\nimport (\n\t\"fmt\"\n\t\"testing\"\n", fn.Pkg.Pkg.Name())
	body := &strings.Builder{}
	fmt.Fprintf(body, "func TestGovcReplay(t *testing.T) {\n")
	fmt.Fprintf(body, "\tdefer func() {\n\t\tif r := recover(); r != nil {\n\t\t\tfmt.Println(\"GOVC-REPLAY-PANIC:\", r)\n\t\t\tt.Fail()\n\t\t}\n\t}()\n")
	for _, d := range rb.decls {
		fmt.Fprintf(body, "\t%s\n", d)
	}
	for _, b := range binds {
		fmt.Fprintf(body, "\t%s\n", b)
	}
	for _, od := range g.olds {
		fmt.Fprintf(body, "\t%s\n", od)
	}
	for _, c := range reqs {
		fmt.Fprintf(body, "\tif !(%s) {\n\t\tfmt.Println(\"GOVC-REPLAY-PRECONDITION-NOT-MET: \" + %q)\n\t\treturn\n\t}\n", c.code, c.src)
	}
	fmt.Fprintf(body, "\t%s\n", call)
	for _, b := range resBinds {
		fmt.Fprintf(body, "\t%s\n", b)
	}
	fmt.Fprintf(body, "\tfmt.Printf(\"GOVC-REPLAY-RESULT:")
	for range resNames {
		fmt.Fprintf(body, " %%v")
	}
	fmt.Fprintf(body, "\\n\"")
	for _, r := range resNames {
		fmt.Fprintf(body, ", %s", r)
	}
	fmt.Fprintf(body, ")\n")
	for _, c := range checks {
		fmt.Fprintf(body, "\tif !(%s) {\n\t\tfmt.Println(\"GOVC-REPLAY-VIOLATION ensures %s: \" + %q)\n\t\tt.Fail()\n\t}\n", c.code, c.label, c.src)
	}
	fmt.Fprintf(body, "}\n")
	code := body.String() + strings.Join(g.order, "\n") + "\n" + replayPrelude
	// imports on demand
	for alias, path := range map[string]string{"os": "os", "syscall": "syscall", "types": modPath + "/types", "unix": "golang.org/x/sys/unix", "strings": "strings", "filepath": "path/filepath"} {
		if strings.Contains(code, alias+".") && fn.Pkg.Pkg.Path() != path {
			fmt.Fprintf(&sb, "\t%s %q\n", alias, path)
		}
	}
	sb.WriteString(")\n\n")
	sb.WriteString(code)
	test := sb.String()
	// run it with an overlay
	dir, err := os.MkdirTemp(filepath.Dir(vc.eng.scratchDir()), "govc-replay-")
	if err != nil {
		return &replayResult{test: test, note: "cannot create scratch dir"}
	}
	defer os.RemoveAll(dir)
	tf := filepath.Join(dir, "zz_govc_replay_test.go")
	os.WriteFile(tf, []byte(test), 0644)
	rel := strings.TrimPrefix(fn.Pkg.Pkg.Path(), modPath)
	pkgDir := filepath.Join(eng.repo, rel)
	ov := map[string]interface{}{"Replace": map[string]string{filepath.Join(pkgDir, "zz_govc_replay_test.go"): tf}}
	ob, _ := json.Marshal(ov)
	ovf := filepath.Join(dir, "overlay.json")
	os.WriteFile(ovf, ob, 0644)
	ctx, cancel := context.WithTimeout(context.Background(), 120*time.Second)
	defer cancel()
	cmd := exec.CommandContext(ctx, "go", "test", "-overlay", ovf, "-vet=off", "-count=1", "-timeout", "60s", "-run", "^TestGovcReplay$", ".")
	cmd.Dir = pkgDir
	cmd.Env = append(os.Environ(), "GOFLAGS=-mod=mod", "GOPROXY=off", "GOSUMDB=off", "GOTOOLCHAIN=local")
	var out bytes.Buffer
	cmd.Stdout, cmd.Stderr = &out, &out
	cmd.Run()
	outs := out.String()
	rr := &replayResult{test: test, output: outs}
	switch {
	case strings.Contains(outs, "GOVC-REPLAY-PRECONDITION-NOT-MET"):
		rr.note = "the rebuilt input does not satisfy the function's precondition (model detail lost in reconstruction)"
	case strings.Contains(outs, "GOVC-REPLAY-PANIC") && !strings.Contains(outs, "GOVC-REPLAY-VIOLATION") && !strings.HasPrefix(o.Kind, "safety"):
		rr.note = "the real function panicked on the rebuilt input, but the failed obligation is not a safety obligation (interface/map fields of the input are not rebuilt) — not counted as a reproduction"
	case strings.Contains(outs, "GOVC-REPLAY-VIOLATION") || strings.Contains(outs, "GOVC-REPLAY-PANIC"):
		rr.reproduced = true
		rr.note = "the real function, run on the solver's model, breaks its contract"
	case strings.Contains(outs, "[build failed]") || strings.Contains(outs, "cannot use") || strings.Contains(outs, "undefined:"):
		rr.note = "generated replay test did not compile"
	default:
		rr.note = "the real function satisfied every executable ensures clause on the model input (spurious through an abstraction, or the failed obligation is an invariant/intermediate one)"
	}
	return rr
}

func (eng *Engine) scratchDir() string {
	d := os.Getenv("TMPDIR")
	if d == "" {
		d = "/var/tmp"
	}
	return filepath.Join(d, "x")
}

var _ ssa.Value
