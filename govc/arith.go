package main

// Integer arithmetic in the two modes.
//   int: Go integers are mathematical integers; unsigned arithmetic wraps
//        with mod 2^w (exact); signed add/sub/mul are mathematical (an
//        overflow obligation is generated when safety +overflow is on).
//   bv : every Go integer is a bit-vector of its width (exact).

import (
	"fmt"
	"go/token"
	"go/types"
	"math/big"
	"strings"
)

func pow2(n int) *big.Int { return new(big.Int).Lsh(big.NewInt(1), uint(n)) }

// parseIntTerm recognises integer literal terms produced by intLit (int mode).
func parseIntTerm(t string) (*big.Int, bool) {
	t = strings.TrimSpace(t)
	if strings.HasPrefix(t, "(- ") && strings.HasSuffix(t, ")") {
		v, ok := new(big.Int).SetString(t[3:len(t)-1], 10)
		if ok {
			return v.Neg(v), true
		}
		return nil, false
	}
	v, ok := new(big.Int).SetString(t, 10)
	return v, ok
}

func (vc *VC) wrapTo(term string, t types.Type) string {
	// int mode: bring a mathematical value into the range of t
	w, signed, ok := intInfo(t)
	if !ok || vc.isMathInt(t) {
		return term
	}
	if v, isLit := parseIntTerm(term); isLit {
		m := pow2(w)
		x := new(big.Int).Mod(v, m)
		if signed && x.Cmp(pow2(w-1)) >= 0 {
			x.Sub(x, m)
		}
		return vc.intLit(x, t)
	}
	if !signed {
		return fmt.Sprintf("(mod %s %s)", term, pow2(w).String())
	}
	h := pow2(w - 1).String()
	return fmt.Sprintf("(- (mod (+ %s %s) %s) %s)", term, h, pow2(w).String(), h)
}

// tdiv/trem: Go truncated division on mathematical integers
func tdiv(a, b string) string {
	return fmt.Sprintf("(ite (>= %s 0) (ite (> %s 0) (div %s %s) (- (div %s (- %s)))) (ite (> %s 0) (- (div (- %s) %s)) (div (- %s) (- %s))))", a, b, a, b, a, b, b, a, b, a, b)
}

func trem(a, b string) string {
	return fmt.Sprintf("(- %s (* %s %s))", a, b, tdiv(a, b))
}

// binop translates x op y where both operands have Go type t (for shifts, y has type yt).
// Returns the term and, for int mode signed arithmetic, an overflow-freedom condition ("" if none).
func (vc *VC) binop(op token.Token, x, y string, t types.Type, yt types.Type) (string, string) {
	if b, ok := t.Underlying().(*types.Basic); ok && b.Info()&types.IsString != 0 {
		switch op {
		case token.ADD:
			return vc.strConcat(x, y), ""
		case token.EQL:
			return eq(x, y), ""
		case token.NEQ:
			return not(eq(x, y)), ""
		case token.LSS:
			return vc.strLess(x, y), ""
		case token.GTR:
			return vc.strLess(y, x), ""
		case token.LEQ:
			return not(vc.strLess(y, x)), ""
		case token.GEQ:
			return not(vc.strLess(x, y)), ""
		}
	}
	w, signed, isInt := intInfo(t)
	if vc.isMathInt(t) {
		isInt, signed, w = true, true, 0
	}
	if !isInt {
		switch op {
		case token.EQL:
			return eq(x, y), ""
		case token.NEQ:
			return not(eq(x, y)), ""
		case token.LAND:
			return and(x, y), ""
		case token.LOR:
			return or(x, y), ""
		}
		if b, ok := t.Underlying().(*types.Basic); ok && b.Info()&types.IsFloat != 0 {
			m := map[token.Token]string{token.ADD: "+", token.SUB: "-", token.MUL: "*", token.QUO: "/", token.LSS: "<", token.LEQ: "<=", token.GTR: ">", token.GEQ: ">="}
			if o, ok := m[op]; ok {
				return fmt.Sprintf("(%s %s %s)", o, x, y), ""
			}
		}
		panic(unsupported(fmt.Sprintf("binop %s on %s", op, t)))
	}
	if vc.isBV() && !vc.isMathInt(t) {
		return vc.binopBV(op, x, y, w, signed, yt), ""
	}
	// int mode
	switch op {
	case token.EQL:
		return eq(x, y), ""
	case token.NEQ:
		return not(eq(x, y)), ""
	case token.LSS:
		return fmt.Sprintf("(< %s %s)", x, y), ""
	case token.LEQ:
		return fmt.Sprintf("(<= %s %s)", x, y), ""
	case token.GTR:
		return fmt.Sprintf("(> %s %s)", x, y), ""
	case token.GEQ:
		return fmt.Sprintf("(>= %s %s)", x, y), ""
	}
	var raw string
	switch op {
	case token.ADD:
		raw = fmt.Sprintf("(+ %s %s)", x, y)
	case token.SUB:
		raw = fmt.Sprintf("(- %s %s)", x, y)
	case token.MUL:
		raw = fmt.Sprintf("(* %s %s)", x, y)
	case token.QUO:
		if signed {
			return tdiv(x, y), ""
		}
		return fmt.Sprintf("(div %s %s)", x, y), ""
	case token.REM:
		if signed {
			return trem(x, y), ""
		}
		return fmt.Sprintf("(mod %s %s)", x, y), ""
	case token.AND:
		return vc.intAnd(x, y, w, signed), ""
	case token.OR:
		if xv, ok := parseIntTerm(x); ok && xv.Sign() == 0 {
			return y, ""
		}
		if yv, ok := parseIntTerm(y); ok && yv.Sign() == 0 {
			return x, ""
		}
		return fmt.Sprintf("(bor %s %s)", x, y), ""
	case token.XOR:
		return fmt.Sprintf("(bxor %s %s)", x, y), ""
	case token.AND_NOT:
		if yv, ok := parseIntTerm(y); ok && w > 0 && !signed {
			mask := new(big.Int).Sub(pow2(w), big.NewInt(1))
			mask.AndNot(mask, yv)
			return vc.intAnd(x, vc.intLit(mask, t), w, signed), ""
		}
		return fmt.Sprintf("(band %s (bxor %s (- 1)))", x, y), ""
	case token.SHL:
		if yv, ok := parseIntTerm(y); ok && yv.IsInt64() && yv.Int64() < 64 {
			raw = fmt.Sprintf("(* %s %s)", x, pow2(int(yv.Int64())).String())
			if signed || w == 0 {
				return raw, ""
			}
			return vc.wrapTo(raw, t), ""
		}
		return fmt.Sprintf("(bshl %s %s)", x, y), ""
	case token.SHR:
		if yv, ok := parseIntTerm(y); ok && yv.IsInt64() && yv.Int64() < 64 {
			return fmt.Sprintf("(div %s %s)", x, pow2(int(yv.Int64())).String()), ""
		}
		return fmt.Sprintf("(bshr %s %s)", x, y), ""
	default:
		panic(unsupported(fmt.Sprintf("binop %s", op)))
	}
	if w == 0 { // mathint
		return raw, ""
	}
	if !signed {
		return vc.wrapTo(raw, t), ""
	}
	return raw, vc.rangeFact(raw, t)
}

// intAnd: exact rewrites for masks in int mode, uninterpreted otherwise.
func (vc *VC) intAnd(x, y string, w int, signed bool) string {
	if _, ok := parseIntTerm(x); ok {
		x, y = y, x
	}
	if yv, ok := parseIntTerm(y); ok && yv.Sign() >= 0 {
		if yv.Sign() == 0 {
			return "0"
		}
		// low mask 2^k-1 on a non-negative operand
		k := yv.BitLen()
		if new(big.Int).Add(yv, big.NewInt(1)).Cmp(pow2(k)) == 0 && !signed {
			return fmt.Sprintf("(mod %s %s)", x, pow2(k).String())
		}
		// contiguous mask (2^hi - 2^lo) on a non-negative operand: ((x div 2^lo) mod 2^(hi-lo)) * 2^lo
		lo := int(yv.TrailingZeroBits())
		sh := new(big.Int).Rsh(yv, uint(lo))
		kk := sh.BitLen()
		if new(big.Int).Add(sh, big.NewInt(1)).Cmp(pow2(kk)) == 0 && !signed {
			return fmt.Sprintf("(* (mod (div %s %s) %s) %s)", x, pow2(lo).String(), pow2(kk).String(), pow2(lo).String())
		}
	}
	return fmt.Sprintf("(band %s %s)", x, y)
}

func (vc *VC) binopBV(op token.Token, x, y string, w int, signed bool, yt types.Type) string {
	s := func(sop, uop string) string {
		if signed {
			return sop
		}
		return uop
	}
	switch op {
	case token.EQL:
		return eq(x, y)
	case token.NEQ:
		return not(eq(x, y))
	case token.LSS:
		return fmt.Sprintf("(%s %s %s)", s("bvslt", "bvult"), x, y)
	case token.LEQ:
		return fmt.Sprintf("(%s %s %s)", s("bvsle", "bvule"), x, y)
	case token.GTR:
		return fmt.Sprintf("(%s %s %s)", s("bvsgt", "bvugt"), x, y)
	case token.GEQ:
		return fmt.Sprintf("(%s %s %s)", s("bvsge", "bvuge"), x, y)
	case token.ADD:
		return fmt.Sprintf("(bvadd %s %s)", x, y)
	case token.SUB:
		return fmt.Sprintf("(bvsub %s %s)", x, y)
	case token.MUL:
		return fmt.Sprintf("(bvmul %s %s)", x, y)
	case token.QUO:
		return fmt.Sprintf("(%s %s %s)", s("bvsdiv", "bvudiv"), x, y)
	case token.REM:
		return fmt.Sprintf("(%s %s %s)", s("bvsrem", "bvurem"), x, y)
	case token.AND:
		return fmt.Sprintf("(bvand %s %s)", x, y)
	case token.OR:
		return fmt.Sprintf("(bvor %s %s)", x, y)
	case token.XOR:
		return fmt.Sprintf("(bvxor %s %s)", x, y)
	case token.AND_NOT:
		return fmt.Sprintf("(bvand %s (bvnot %s))", x, y)
	case token.SHL, token.SHR:
		// bring the shift count to width w (counts >= w give 0 / sign fill, as in SMT-LIB)
		yw, _, _ := intInfo(yt)
		cnt := y
		switch {
		case yw == 0:
			yw = w
		case yw < w:
			cnt = fmt.Sprintf("((_ zero_extend %d) %s)", w-yw, y)
		case yw > w:
			big := fmt.Sprintf("(bvuge %s (_ bv%d %d))", y, w, yw)
			cnt = fmt.Sprintf("(ite %s (_ bv%d %d) ((_ extract %d 0) %s))", big, w, w, w-1, y)
		}
		if op == token.SHL {
			return fmt.Sprintf("(bvshl %s %s)", x, cnt)
		}
		return fmt.Sprintf("(%s %s %s)", s("bvashr", "bvlshr"), x, cnt)
	}
	panic(unsupported(fmt.Sprintf("bv binop %s", op)))
}

func (vc *VC) unop(op token.Token, x string, t types.Type) string {
	switch op {
	case token.NOT:
		return not(x)
	case token.SUB:
		if b, ok := t.Underlying().(*types.Basic); ok && b.Info()&types.IsFloat != 0 {
			return fmt.Sprintf("(- %s)", x)
		}
		if vc.isBV() && !vc.isMathInt(t) {
			return fmt.Sprintf("(bvneg %s)", x)
		}
		_, signed, _ := intInfo(t)
		if !signed && !vc.isMathInt(t) {
			return vc.wrapTo(fmt.Sprintf("(- %s)", x), t)
		}
		return fmt.Sprintf("(- %s)", x)
	case token.XOR:
		if vc.isBV() {
			return fmt.Sprintf("(bvnot %s)", x)
		}
		w, signed, _ := intInfo(t)
		if signed {
			return fmt.Sprintf("(- (- %s) 1)", x)
		}
		return fmt.Sprintf("(- %s %s)", new(big.Int).Sub(pow2(w), big.NewInt(1)).String(), x)
	}
	panic(unsupported(fmt.Sprintf("unop %s", op)))
}

// convertInt converts an integer term from Go type `from` to Go type `to`.
func (vc *VC) convertInt(x string, from, to types.Type) string {
	fw, fs, fok := intInfo(from)
	tw, ts, tok := intInfo(to)
	if vc.isMathInt(to) {
		if vc.isBV() && !vc.isMathInt(from) {
			if fs {
				return fmt.Sprintf("(ite (bvslt %s (_ bv0 %d)) (- (bv2nat (bvneg %s))) (bv2nat %s))", x, fw, x, x)
			}
			return fmt.Sprintf("(bv2nat %s)", x)
		}
		return x
	}
	if vc.isMathInt(from) {
		if vc.isBV() {
			return fmt.Sprintf("((_ int2bv %d) %s)", tw, x)
		}
		return vc.wrapTo(x, to)
	}
	if !fok || !tok {
		panic(unsupported(fmt.Sprintf("convert %s -> %s", from, to)))
	}
	if vc.isBV() {
		switch {
		case fw == tw:
			return x
		case fw > tw:
			return fmt.Sprintf("((_ extract %d 0) %s)", tw-1, x)
		case fs:
			return fmt.Sprintf("((_ sign_extend %d) %s)", tw-fw, x)
		default:
			return fmt.Sprintf("((_ zero_extend %d) %s)", tw-fw, x)
		}
	}
	// int mode: identity when the source range is contained in the target range
	if fs == ts && fw <= tw {
		return x
	}
	if !fs && ts && fw < tw {
		return x
	}
	return vc.wrapTo(x, to)
}

// strings ---------------------------------------------------------------

func (vc *VC) strConcat(x, y string) string {
	if vc.isBV() {
		key := "cat:" + x + "|" + y
		if n, ok := vc.strLits[key]; ok {
			return n
		}
		c := vc.freshConst("cat", "Str")
		vc.strLits[key] = c
		lx, ly, lc := vc.strLen(x), vc.strLen(y), vc.strLen(c)
		vc.assume(fmt.Sprintf("(= %s (bvadd %s %s))", lc, lx, ly))
		vc.assume(fmt.Sprintf("(forall ((k (_ BitVec 64))) (! (=> (and (bvsle (_ bv0 64) k) (bvslt k %s)) (= (sat %s k) (sat %s k))) :pattern ((sat %s k))))", lx, c, x, c))
		return c
	}
	// int mode: concatenation is a function symbol with its defining axioms
	if !vc.declared["f:strcat"] {
		vc.decl("f:strcat", "(declare-fun strcat (Str Str) Str)")
		vc.assume("(forall ((x Str) (y Str)) (! (= (slen (strcat x y)) (+ (slen x) (slen y))) :pattern ((strcat x y))))")
		vc.assume("(forall ((x Str) (y Str) (k Int)) (! (=> (and (<= 0 k) (< k (slen x))) (= (sat (strcat x y) k) (sat x k))) :pattern ((sat (strcat x y) k))))")
	}
	c := fmt.Sprintf("(strcat %s %s)", x, y)
	key := "catfacts:" + c
	if _, ok := vc.strLits[key]; !ok && !strings.Contains(c, "qv!") && !strings.Contains(c, "pa!") {
		vc.strLits[key] = c
		// bytes of the right part when it is a short literal (absolute indices)
		for lit, name := range vc.strLits {
			if name == y && strings.HasPrefix(name, "lit!") && len(lit) <= 8 {
				for i := 0; i < len(lit); i++ {
					vc.assume(fmt.Sprintf("(= (sat %s (+ (slen %s) %d)) %d)", c, x, i, lit[i]))
				}
			}
		}
	}
	return c
}

func (vc *VC) isPlainLit(lit, name string) bool {
	return strings.HasPrefix(name, "lit!")
}

// strLess: bytewise lexicographic order
func (vc *VC) strLess(x, y string) string {
	vc.decl("f:strless", "(declare-fun strless (Str Str) Bool)")
	if !vc.declared["ax:strless"] {
		vc.declared["ax:strless"] = true
		// bytewise order kept uninterpreted (the first-difference definition makes the
		// solvers diverge); only irreflexivity is supplied
		vc.assume("(forall ((a Str)) (! (not (strless a a)) :pattern ((strless a a))))")
		vc.trust("bytewise string order `<` is an uninterpreted irreflexive relation (same symbol in code and contracts)")
	}
	return fmt.Sprintf("(strless %s %s)", x, y)
}
