package main

// Contract expression language: a Go-expression subset extended with
//   ==>  <==>  forall/exists x T[, y U] :: body   old(e)   ite(c,a,b)
// parsed by a small recursive-descent parser into Expr nodes.

import (
	"fmt"
	"strings"
	"unicode"
)

type Expr interface{ String() string }

type (
	EIdent struct{ Name string }
	ENum   struct{ Text string } // integer literal (decimal, 0x, 0o/0 octal, 0b)
	EStr   struct{ Val string }
	EChar  struct{ Val byte }
	EBool  struct{ Val bool }
	ENil   struct{}
	EUnary struct {
		Op string
		X  Expr
	}
	EBinary struct {
		Op   string
		X, Y Expr
	}
	ESel struct {
		X   Expr
		Sel string
	}
	EIndex struct{ X, I Expr }
	ESlice struct{ X, Lo, Hi Expr }
	ECall  struct {
		Fun  Expr
		Args []Expr
	}
	EQuant struct {
		Forall bool
		Vars   []QVar
		Body   Expr
		Trig   []Expr // optional explicit trigger (one multi-pattern)
	}
	// EType is a type used as conversion target: uint32(x), os.FileMode(x)
	EType struct{ T TypeExpr }
)

type QVar struct {
	Name string
	T    TypeExpr
}

// TypeExpr is a syntactic type: name, pkg.name, []T, *T, map[K]V
type TypeExpr struct {
	Kind string // "name", "slice", "ptr", "map"
	Pkg  string
	Name string
	Elem *TypeExpr
	Key  *TypeExpr
}

func (t TypeExpr) String() string {
	switch t.Kind {
	case "slice":
		return "[]" + t.Elem.String()
	case "ptr":
		return "*" + t.Elem.String()
	case "map":
		return "map[" + t.Key.String() + "]" + t.Elem.String()
	}
	if t.Pkg != "" {
		return t.Pkg + "." + t.Name
	}
	return t.Name
}

func (e EIdent) String() string  { return e.Name }
func (e ENum) String() string    { return e.Text }
func (e EStr) String() string    { return fmt.Sprintf("%q", e.Val) }
func (e EChar) String() string   { return fmt.Sprintf("%q", rune(e.Val)) }
func (e EBool) String() string   { return fmt.Sprint(e.Val) }
func (e ENil) String() string    { return "nil" }
func (e EUnary) String() string  { return e.Op + e.X.String() }
func (e EBinary) String() string { return "(" + e.X.String() + " " + e.Op + " " + e.Y.String() + ")" }
func (e ESel) String() string    { return e.X.String() + "." + e.Sel }
func (e EIndex) String() string  { return e.X.String() + "[" + e.I.String() + "]" }
func (e ESlice) String() string {
	lo, hi := "", ""
	if e.Lo != nil {
		lo = e.Lo.String()
	}
	if e.Hi != nil {
		hi = e.Hi.String()
	}
	return e.X.String() + "[" + lo + ":" + hi + "]"
}
func (e ECall) String() string {
	var a []string
	for _, x := range e.Args {
		a = append(a, x.String())
	}
	return e.Fun.String() + "(" + strings.Join(a, ", ") + ")"
}
func (e EQuant) String() string {
	q := "exists"
	if e.Forall {
		q = "forall"
	}
	var vs []string
	for _, v := range e.Vars {
		vs = append(vs, v.Name+" "+v.T.String())
	}
	return "(" + q + " " + strings.Join(vs, ", ") + " :: " + e.Body.String() + ")"
}
func (e EType) String() string { return e.T.String() }

// ---------------------------------------------------------------- lexer

type tok struct {
	kind string // ident num str char op eof
	text string
	pos  int
}

type lexer struct {
	src  string
	toks []tok
	p    int
}

var ops = []string{"<==>", "==>", "::", "&&", "||", "==", "!=", "<=", ">=", "<<", ">>", "&^",
	"+", "-", "*", "/", "%", "&", "|", "^", "<", ">", "!", "(", ")", "[", "]", ".", ",", ":", "{", "}", "="}

func lex(src string) ([]tok, error) {
	var toks []tok
	i := 0
	for i < len(src) {
		c := src[i]
		if c == ' ' || c == '\t' || c == '\n' || c == '\r' {
			i++
			continue
		}
		if unicode.IsLetter(rune(c)) || c == '_' || c == '#' {
			j := i + 1
			for j < len(src) && (unicode.IsLetter(rune(src[j])) || unicode.IsDigit(rune(src[j])) || src[j] == '_' || src[j] == '$' || src[j] == '#') {
				j++
			}
			toks = append(toks, tok{"ident", src[i:j], i})
			i = j
			continue
		}
		if c >= '0' && c <= '9' {
			j := i + 1
			for j < len(src) && (unicode.IsLetter(rune(src[j])) || unicode.IsDigit(rune(src[j])) || src[j] == '_') {
				j++
			}
			toks = append(toks, tok{"num", strings.ReplaceAll(src[i:j], "_", ""), i})
			i = j
			continue
		}
		if c == '"' {
			j := i + 1
			var sb strings.Builder
			for j < len(src) && src[j] != '"' {
				if src[j] == '\\' && j+1 < len(src) {
					j++
					switch src[j] {
					case 'n':
						sb.WriteByte('\n')
					case 't':
						sb.WriteByte('\t')
					case '\\':
						sb.WriteByte('\\')
					case '"':
						sb.WriteByte('"')
					case 'x':
						var v byte
						fmt.Sscanf(src[j+1:j+3], "%02x", &v)
						sb.WriteByte(v)
						j += 2
					default:
						return nil, fmt.Errorf("bad escape at %d in %q", j, src)
					}
					j++
					continue
				}
				sb.WriteByte(src[j])
				j++
			}
			if j >= len(src) {
				return nil, fmt.Errorf("unterminated string in %q", src)
			}
			toks = append(toks, tok{"str", sb.String(), i})
			i = j + 1
			continue
		}
		if c == '\'' {
			// char literal
			j := i + 1
			var v byte
			if j < len(src) && src[j] == '\\' {
				j++
				switch src[j] {
				case 'n':
					v = '\n'
				case 't':
					v = '\t'
				case '\\':
					v = '\\'
				case '\'':
					v = '\''
				case 'x':
					fmt.Sscanf(src[j+1:j+3], "%02x", &v)
					j += 2
				default:
					return nil, fmt.Errorf("bad char escape in %q", src)
				}
				j++
			} else if j < len(src) {
				v = src[j]
				j++
			}
			if j >= len(src) || src[j] != '\'' {
				return nil, fmt.Errorf("bad char literal at %d in %q", i, src)
			}
			toks = append(toks, tok{"char", string([]byte{v}), i})
			i = j + 1
			continue
		}
		matched := false
		for _, op := range ops {
			if strings.HasPrefix(src[i:], op) {
				toks = append(toks, tok{"op", op, i})
				i += len(op)
				matched = true
				break
			}
		}
		if !matched {
			return nil, fmt.Errorf("unexpected character %q at %d in %q", c, i, src)
		}
	}
	toks = append(toks, tok{"eof", "", len(src)})
	return toks, nil
}

// ---------------------------------------------------------------- parser

type parser struct {
	src  string
	toks []tok
	p    int
}

func ParseExpr(src string) (e Expr, err error) {
	toks, err := lex(src)
	if err != nil {
		return nil, err
	}
	ps := &parser{src: src, toks: toks}
	defer func() {
		if r := recover(); r != nil {
			if pe, ok := r.(parseErr); ok {
				err = fmt.Errorf("%s in %q", string(pe), src)
				return
			}
			panic(r)
		}
	}()
	e = ps.expr()
	if ps.peek().kind != "eof" {
		ps.fail("unexpected %q", ps.peek().text)
	}
	return e, nil
}

type parseErr string

func (p *parser) fail(f string, a ...interface{}) {
	panic(parseErr(fmt.Sprintf("parse error at %d: ", p.peek().pos) + fmt.Sprintf(f, a...)))
}
func (p *parser) peek() tok { return p.toks[p.p] }
func (p *parser) next() tok { t := p.toks[p.p]; p.p++; return t }
func (p *parser) isOp(s string) bool {
	t := p.peek()
	return t.kind == "op" && t.text == s
}
func (p *parser) accept(s string) bool {
	if p.isOp(s) {
		p.p++
		return true
	}
	return false
}
func (p *parser) expect(s string) {
	if !p.accept(s) {
		p.fail("expected %q, got %q", s, p.peek().text)
	}
}

func (p *parser) expr() Expr {
	t := p.peek()
	if t.kind == "ident" && (t.text == "forall" || t.text == "exists") {
		p.next()
		var vars []QVar
		for {
			n := p.next()
			if n.kind != "ident" {
				p.fail("quantifier variable expected")
			}
			ty := p.typeExpr()
			vars = append(vars, QVar{n.text, ty})
			if !p.accept(",") {
				break
			}
		}
		p.expect("::")
		// optional trigger: forall x T :: {t1, t2} body
		var trig []Expr
		if p.accept("{") {
			for {
				trig = append(trig, p.iff())
				if !p.accept(",") {
					break
				}
			}
			p.expect("}")
		}
		body := p.expr()
		return EQuant{Forall: t.text == "forall", Vars: vars, Body: body, Trig: trig}
	}
	return p.iff()
}

func (p *parser) iff() Expr {
	x := p.impl()
	for p.accept("<==>") {
		y := p.impl()
		x = EBinary{"<==>", x, y}
	}
	return x
}

func (p *parser) impl() Expr {
	x := p.or()
	if p.accept("==>") {
		// right associative; the consequent may be a quantifier
		var y Expr
		t := p.peek()
		if t.kind == "ident" && (t.text == "forall" || t.text == "exists") {
			y = p.expr()
		} else {
			y = p.impl()
		}
		return EBinary{"==>", x, y}
	}
	return x
}

func (p *parser) or() Expr {
	x := p.and()
	for p.accept("||") {
		x = EBinary{"||", x, p.and()}
	}
	return x
}

func (p *parser) and() Expr {
	x := p.cmp()
	for p.accept("&&") {
		x = EBinary{"&&", x, p.cmp()}
	}
	return x
}

func (p *parser) cmp() Expr {
	x := p.add()
	for _, op := range []string{"==", "!=", "<=", ">=", "<", ">"} {
		if p.accept(op) {
			return EBinary{op, x, p.add()}
		}
	}
	return x
}

func (p *parser) add() Expr {
	x := p.mul()
	for {
		switch {
		case p.accept("+"):
			x = EBinary{"+", x, p.mul()}
		case p.accept("-"):
			x = EBinary{"-", x, p.mul()}
		case p.accept("|"):
			x = EBinary{"|", x, p.mul()}
		case p.accept("^"):
			x = EBinary{"^", x, p.mul()}
		default:
			return x
		}
	}
}

func (p *parser) mul() Expr {
	x := p.unary()
	for {
		found := false
		for _, op := range []string{"*", "/", "%", "<<", ">>", "&^", "&"} {
			if p.accept(op) {
				x = EBinary{op, x, p.unary()}
				found = true
				break
			}
		}
		if !found {
			return x
		}
	}
}

func (p *parser) unary() Expr {
	for _, op := range []string{"!", "-", "^", "*"} {
		if p.accept(op) {
			return EUnary{op, p.unary()}
		}
	}
	return p.postfix()
}

func (p *parser) postfix() Expr {
	x := p.primary()
	for {
		switch {
		case p.accept("."):
			n := p.next()
			if n.kind != "ident" {
				p.fail("selector expected")
			}
			x = ESel{x, n.text}
		case p.accept("["):
			var lo, hi Expr
			if p.accept(":") {
				if !p.isOp("]") {
					hi = p.expr()
				}
				p.expect("]")
				x = ESlice{x, nil, hi}
				continue
			}
			lo = p.expr()
			if p.accept(":") {
				if !p.isOp("]") {
					hi = p.expr()
				}
				p.expect("]")
				x = ESlice{x, lo, hi}
				continue
			}
			p.expect("]")
			x = EIndex{x, lo}
		case p.accept("("):
			var args []Expr
			if !p.isOp(")") {
				for {
					args = append(args, p.expr())
					if !p.accept(",") {
						break
					}
				}
			}
			p.expect(")")
			x = ECall{x, args}
		default:
			return x
		}
	}
}

func (p *parser) primary() Expr {
	t := p.next()
	switch t.kind {
	case "ident":
		switch t.text {
		case "true":
			return EBool{true}
		case "false":
			return EBool{false}
		case "nil":
			return ENil{}
		}
		return EIdent{t.text}
	case "num":
		return ENum{t.text}
	case "str":
		return EStr{t.text}
	case "char":
		return EChar{t.text[0]}
	case "op":
		switch t.text {
		case "(":
			// parenthesised expression or parenthesised type for conversion (*T)(x) — not supported
			e := p.expr()
			p.expect(")")
			return e
		case "[":
			// []T(x) conversion
			p.p--
			ty := p.typeExpr()
			return EType{ty}
		}
	}
	p.fail("unexpected %q", t.text)
	return nil
}

func (p *parser) typeExpr() TypeExpr {
	if p.accept("[") {
		p.expect("]")
		e := p.typeExpr()
		return TypeExpr{Kind: "slice", Elem: &e}
	}
	if p.accept("*") {
		e := p.typeExpr()
		return TypeExpr{Kind: "ptr", Elem: &e}
	}
	t := p.next()
	if t.kind != "ident" {
		p.fail("type expected, got %q", t.text)
	}
	if t.text == "struct" {
		p.expect("{")
		p.expect("}")
		return TypeExpr{Kind: "name", Name: "struct{}"}
	}
	if t.text == "map" {
		p.expect("[")
		k := p.typeExpr()
		p.expect("]")
		v := p.typeExpr()
		return TypeExpr{Kind: "map", Key: &k, Elem: &v}
	}
	if p.accept(".") {
		n := p.next()
		return TypeExpr{Kind: "name", Pkg: t.text, Name: n.text}
	}
	return TypeExpr{Kind: "name", Name: t.text}
}

func ParseType(src string) (t TypeExpr, err error) {
	toks, err := lex(src)
	if err != nil {
		return TypeExpr{}, err
	}
	ps := &parser{src: src, toks: toks}
	defer func() {
		if r := recover(); r != nil {
			if pe, ok := r.(parseErr); ok {
				err = fmt.Errorf("%s in %q", string(pe), src)
				return
			}
			panic(r)
		}
	}()
	t = ps.typeExpr()
	if ps.peek().kind != "eof" {
		ps.fail("trailing input after type")
	}
	return t, nil
}
