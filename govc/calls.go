package main

// Call handling: builtins, inlining, modular contracts, assumed external
// contracts, effects (ghost trace counters), havoc defaults.

import (
	"fmt"
	"go/token"
	"go/types"
	"sort"
	"strings"

	"golang.org/x/tools/go/ssa"
)

// canonical function names ------------------------------------------------

func canonFunc(fn *ssa.Function) string {
	// closures: parent$N
	if fn.Parent() != nil {
		name := fn.Name()
		// fn.Name() for closures is like "run$2" ; need receiver prefix of the outermost parent
		outer := fn
		for outer.Parent() != nil {
			outer = outer.Parent()
		}
		base := canonFunc(outer)
		// strip the outer's simple name and put the closure's
		i := strings.LastIndex(base, ".")
		return base[:i+1] + name
	}
	pkg := ""
	if fn.Pkg != nil {
		pkg = shortPkg(fn.Pkg.Pkg.Path())
	} else if fn.Object() != nil && fn.Object().Pkg() != nil {
		pkg = shortPkg(fn.Object().Pkg().Path())
	}
	name := fn.Name()
	if recv := fn.Signature.Recv(); recv != nil {
		rt := recv.Type()
		if p, ok := rt.(*types.Pointer); ok {
			rt = p.Elem()
		}
		tn := ""
		if n, ok := rt.(*types.Named); ok {
			tn = n.Obj().Name()
			if n.Obj().Pkg() != nil {
				pkg = shortPkg(n.Obj().Pkg().Path())
			}
		} else {
			tn = rt.String()
		}
		name = tn + "." + name
	}
	// generic instantiations: strip type arguments "push[*T]"
	if i := strings.Index(name, "["); i >= 0 {
		name = name[:i]
	}
	if pkg == "" {
		return name
	}
	return pkg + "." + name
}

func (eng *Engine) contractFor(fn *ssa.Function) *FuncContract {
	key := canonFunc(fn)
	if fc, ok := eng.cs.Funcs[key]; ok {
		return fc
	}
	// in-repo contracts are keyed by full package path + "." + name
	if fn.Pkg != nil {
		full := fn.Pkg.Pkg.Path()
		short := shortPkg(full)
		if strings.HasPrefix(key, short+".") {
			if fc, ok := eng.cs.Funcs[full+"."+key[len(short)+1:]]; ok {
				return fc
			}
		}
	}
	if fn.Origin() != nil && fn.Origin() != fn {
		return eng.contractFor(fn.Origin())
	}
	return nil
}

// inlinable: small loop-free functions without contract (accessors), or
// functions whose contract says "inline". closure=true relaxes the size limit.
func (eng *Engine) inlinable(fn *ssa.Function, closure bool) bool {
	if fn == nil || len(fn.Blocks) == 0 {
		return false
	}
	if v, ok := eng.inlCache[fn]; ok {
		return v
	}
	eng.inlCache[fn] = false // recursion guard
	limit := 160
	if closure {
		limit = 200
	}
	n := 0
	ok := true
	for _, b := range fn.Blocks {
		for _, s := range b.Succs {
			if s.Dominates(b) {
				ok = false
			}
		}
		n += len(b.Instrs)
		for _, in := range b.Instrs {
			switch x := in.(type) {
			case *ssa.Go, *ssa.Select, *ssa.Defer:
				ok = false
			case *ssa.Call:
				_ = x
			}
		}
	}
	if n > limit {
		ok = false
	}
	eng.inlCache[fn] = ok
	return ok
}

// ------------------------------------------------------------------ calls

func (fr *Frame) call(st *State, g string, site ssa.Instruction, c *ssa.CallCommon, pos token.Pos) (*State, []string) {
	var args []string
	if _, isB := c.Value.(*ssa.Builtin); !isB {
		for _, a := range c.Args {
			args = append(args, fr.val(a))
		}
	}
	return fr.callCommon(st, g, site, c, pos, args)
}

func (fr *Frame) callCommon(st *State, g string, site ssa.Instruction, c *ssa.CallCommon, pos token.Pos, args []string) (*State, []string) {
	vc := fr.vc
	eng := vc.eng
	if b, ok := c.Value.(*ssa.Builtin); ok {
		return fr.builtin(st, g, b, c, pos)
	}
	sig := c.Signature()
	// interface method call
	if c.IsInvoke() {
		recvT := c.Value.Type()
		name := ifaceMethodName(recvT, c.Method)
		recv := fr.val(c.Value)
		// known dynamic type created in this function?
		if mi, ok := c.Value.(*ssa.MakeInterface); ok {
			if callee := eng.prog.LookupMethod(mi.X.Type(), c.Method.Pkg(), c.Method.Name()); callee != nil {
				full := append([]string{fr.val(mi.X)}, args...)
				return fr.staticCall(st, g, site, callee, append([]ssa.Value{mi.X}, c.Args...), full, pos, nil)
			}
		}
		fr.callSiteAsserts(st, g, name, false, args, nil, pos, sig)
		if fc := eng.lookupExtern(name, "method"); fc != nil {
			return fr.applyAssumed(st, g, fc, name, append([]string{recv}, args...), paramTypesWithRecv(recvT, sig), sig, pos, site)
		}
		return fr.unknownCall(st, g, "interface method "+name, c.Args, args, sig, true)
	}
	// static callee
	if callee := c.StaticCallee(); callee != nil {
		var ci *closureInfo
		if mc, ok := c.Value.(*ssa.MakeClosure); ok {
			ci = fr.findClosure(mc)
		}
		return fr.staticCall(st, g, site, callee, c.Args, args, pos, ci)
	}
	// dynamic call through a function value
	key := fr.funcValueKey(c.Value)
	if key != "" {
		fr.callSiteAsserts(st, g, key, false, args, nil, pos, sig)
		if fc := eng.lookupExtern(key, "callback"); fc != nil {
			return fr.applyAssumed(st, g, fc, key, args, sigParamTypes(sig), sig, pos, site)
		}
	}
	return fr.unknownCall(st, g, "function value "+key, c.Args, args, sig, true)
}

func (fr *Frame) findClosure(mc *ssa.MakeClosure) *closureInfo {
	for f := fr; f != nil; f = f.parent {
		if ci, ok := f.closures[mc]; ok {
			return ci
		}
	}
	return nil
}

func ifaceMethodName(t types.Type, m *types.Func) string {
	if n, ok := t.(*types.Named); ok && n.Obj().Pkg() != nil {
		return shortPkg(n.Obj().Pkg().Path()) + "." + n.Obj().Name() + "." + m.Name()
	}
	if n, ok := t.(*types.Named); ok {
		return n.Obj().Name() + "." + m.Name() // error.Error
	}
	if a, ok := t.(*types.Alias); ok {
		return ifaceMethodName(types.Unalias(a), m)
	}
	return "interface." + m.Name()
}

func paramTypesWithRecv(recv types.Type, sig *types.Signature) []types.Type {
	return append([]types.Type{recv}, sigParamTypes(sig)...)
}

func sigParamTypes(sig *types.Signature) []types.Type {
	var out []types.Type
	for i := 0; i < sig.Params().Len(); i++ {
		out = append(out, sig.Params().At(i).Type())
	}
	return out
}

// funcValueKey names the origin of a dynamically called function value:
// a struct field ("DiskWriterOpt.NotifyCb"), a parameter ("doubleWalkDiff.changeFn"),
// or a captured variable.
func (fr *Frame) funcValueKey(v ssa.Value) string {
	switch x := v.(type) {
	case *ssa.UnOp:
		if x.Op == token.MUL {
			switch a := x.X.(type) {
			case *ssa.FieldAddr:
				pt := a.X.Type().Underlying().(*types.Pointer).Elem()
				st := pt.Underlying().(*types.Struct)
				return typeShortName(pt) + "." + st.Field(a.Field).Name()
			case *ssa.FreeVar:
				return fr.outerName() + "." + a.Name()
			case *ssa.Alloc:
				return fr.outerName() + "." + a.Comment
			}
		}
	case *ssa.Field:
		st := x.X.Type().Underlying().(*types.Struct)
		return typeShortName(x.X.Type()) + "." + st.Field(x.Field).Name()
	case *ssa.Parameter:
		return fr.outerName() + "." + x.Name()
	case *ssa.FreeVar:
		return fr.outerName() + "." + x.Name()
	case *ssa.Extract:
		// a function value returned by a call: "callee#index", e.g. context.WithCancel#1
		if c, ok := x.Tuple.(*ssa.Call); ok {
			if callee := c.Call.StaticCallee(); callee != nil {
				return fmt.Sprintf("%s#%d", canonFunc(callee), x.Index)
			}
		}
	case *ssa.Phi:
		// e.g. fn := a; if fn == nil { fn = b }
		for _, e := range x.Edges {
			if k := fr.funcValueKey(e); k != "" {
				return k
			}
		}
	case *ssa.Call:
		// a helper of this module that selects and returns a function value (e.g. one of two
		// configured callbacks): the value is what the helper returns
		if callee := x.Call.StaticCallee(); callee != nil && callee.Pkg != nil && strings.HasPrefix(callee.Pkg.Pkg.Path(), modPath) && callee.Signature.Results().Len() == 1 {
			sub := &Frame{fn: callee, vc: fr.vc}
			for _, b := range callee.Blocks {
				for _, in := range b.Instrs {
					if r, ok := in.(*ssa.Return); ok && len(r.Results) == 1 {
						if k := sub.funcValueKey(r.Results[0]); k != "" {
							return k
						}
					}
				}
			}
		}
	}
	return ""
}

func (fr *Frame) outerName() string {
	fn := fr.fn
	for fn.Parent() != nil {
		fn = fn.Parent()
	}
	c := canonFunc(fn)
	if i := strings.Index(c, "."); i >= 0 {
		// drop package
		j := strings.LastIndex(c[:strings.LastIndex(c, ".")+1], "/")
		_ = j
	}
	// keep only Type.Method or Func
	parts := strings.Split(c, ".")
	if fn.Signature.Recv() != nil && len(parts) >= 2 {
		return parts[len(parts)-2] + "." + parts[len(parts)-1]
	}
	return parts[len(parts)-1]
}

func typeShortName(t types.Type) string {
	if n, ok := t.(*types.Named); ok {
		return n.Obj().Name()
	}
	if p, ok := t.(*types.Pointer); ok {
		return typeShortName(p.Elem())
	}
	return t.String()
}

func (eng *Engine) lookupExtern(name, kind string) *FuncContract {
	if fc, ok := eng.cs.Funcs[name]; ok && fc.Kind != "func" {
		return fc
	}
	// suffix match: "Stream.SendMsg" for "fsutil.Stream.SendMsg"
	for k, fc := range eng.cs.Funcs {
		if fc.Kind == "func" {
			continue
		}
		if strings.HasSuffix(name, "."+k) || strings.HasSuffix(name, "/"+k) {
			return fc
		}
	}
	return nil
}

func (fr *Frame) staticCall(st *State, g string, site ssa.Instruction, callee *ssa.Function, argVals []ssa.Value, args []string, pos token.Pos, ci *closureInfo) (*State, []string) {
	vc := fr.vc
	eng := vc.eng
	sig := callee.Signature
	cname := canonFunc(callee)
	fr.callSiteAsserts(st, g, cname, false, args, callee, pos, nil)
	if cname == "sort.Slice" && len(argVals) == 2 {
		if mc, ok := argVals[1].(*ssa.MakeClosure); ok {
			if mi, ok := argVals[0].(*ssa.MakeInterface); ok {
				if _, isSl := mi.X.Type().Underlying().(*types.Slice); isSl {
					return fr.sortSlice(st, g, mi.X, mc, pos)
				}
			}
		}
	}
	if cname == "sort.Search" && len(argVals) == 2 {
		if mc, ok := argVals[1].(*ssa.MakeClosure); ok {
			return fr.sortSearch(st, g, args[0], mc, pos)
		}
	}
	fc := eng.contractFor(callee)
	if fc == nil {
		fc = eng.lookupExtern(cname, "extern")
	}
	var st2 *State
	var res []string
	switch {
	case fc != nil && fc.Kind == "func" && !fc.Inline:
		// pointers into enclosing objects (&x.f where f is a struct) passed to a contracted callee:
		// copy-in / copy-out through a temporary object of the pointee type
		type cio struct {
			loc  *Loc
			addr string
			t    types.Type
		}
		var cios []cio
		args = append([]string(nil), args...)
		for i, av := range argVals {
			if i >= len(args) {
				break
			}
			l, ok := fr.locs[av]
			if !ok {
				continue
			}
			pt, isPtr := av.Type().Underlying().(*types.Pointer)
			if !isPtr {
				continue
			}
			if _, isStruct := pt.Elem().Underlying().(*types.Struct); !isStruct {
				continue
			}
			if len(l.path) == 0 && l.addr != "" {
				continue // a whole heap object: its address is the pointer
			}
			var a string
			st, a = fr.alloc(st)
			hv := vc.heapVar(pt.Elem())
			st = fr.setVar(st, hv, fmt.Sprintf("(store %s %s %s)", st.get(hv), a, fr.load(st, l)))
			args[i] = a
			cios = append(cios, cio{l, a, pt.Elem()})
			vc.note("interior pointer argument of %s: copy-in/copy-out through a temporary object", cname)
		}
		st2, res = fr.applyContract(st, g, fc, callee, args, pos, site, ci)
		for _, c := range cios {
			hv := vc.heapVar(c.t)
			st2 = fr.store(st2, c.loc, fmt.Sprintf("(select %s %s)", st2.get(hv), c.addr))
		}
	case fc != nil && fc.Kind != "func" && fc.Pure && sig.Variadic() && fr.variadicElems(st, argVals) != nil:
		// pure variadic function (filepath.Join): uninterpreted function of the individual elements
		elems := fr.variadicElems(st, argVals)
		vc.trust("assumed contract: %s %s (%s:%d)", fc.Kind, fc.Name, shortFile(fc.File), fc.Line)
		et := sig.Params().At(sig.Params().Len() - 1).Type().(*types.Slice).Elem()
		rt := sig.Results().At(0).Type()
		fname := fmt.Sprintf("pure_%s_0_n%d", sanitize(fc.Name), len(elems)+sig.Params().Len()-1)
		var sorts []string
		var ts []string
		for i := 0; i < sig.Params().Len()-1; i++ {
			sorts = append(sorts, vc.sortOf(sig.Params().At(i).Type()))
			ts = append(ts, args[i])
		}
		for _, e := range elems {
			sorts = append(sorts, vc.sortOf(et))
			ts = append(ts, e)
		}
		vc.decl("f:"+fname, fmt.Sprintf("(declare-fun %s (%s) %s)", fname, strings.Join(sorts, " "), vc.sortOf(rt)))
		st2, res = st, []string{fmt.Sprintf("(%s %s)", fname, strings.Join(ts, " "))}
	case fc != nil && fc.Kind != "func":
		var pts []types.Type
		if sig.Recv() != nil {
			pts = append(pts, sig.Recv().Type())
		}
		pts = append(pts, sigParamTypes(sig)...)
		st2, res = fr.applyAssumed(st, g, fc, cname, args, pts, sig, pos, site)
	case (fc != nil && fc.Inline) || eng.inlinable(callee, ci != nil) && fr.depth < 6:
		st2, res = fr.inline(st, g, callee, args, ci, pos)
	default:
		if ext := eng.lookupExtern(cname, "extern"); ext != nil {
			var pts []types.Type
			if sig.Recv() != nil {
				pts = append(pts, sig.Recv().Type())
			}
			pts = append(pts, sigParamTypes(sig)...)
			st2, res = fr.applyAssumed(st, g, ext, cname, args, pts, sig, pos, site)
		} else {
			inRepo := callee.Pkg != nil && strings.HasPrefix(callee.Pkg.Pkg.Path(), "github.com/tonistiigi/fsutil")
			st2, res = fr.unknownCall(st, g, cname, argVals, args, sig, inRepo)
		}
	}
	fr.callSiteAssertsAfter(st2, g, cname, args, res, callee, pos, st)
	return st2, res
}

// inline translates the callee's body in place (real SSA, no restatement).
func (fr *Frame) inline(st *State, g string, callee *ssa.Function, args []string, ci *closureInfo, pos token.Pos) (*State, []string) {
	vc := fr.vc
	vc.nfresh++
	sub := &Frame{vc: vc, fn: callee, prefix: fmt.Sprintf("%si%d_", fr.prefix, vc.nfresh), vals: map[ssa.Value]string{}, tuples: map[ssa.Value][]string{},
		locs: map[ssa.Value]*Loc{}, guards: map[int]string{}, exits: map[int]*State{}, edge: map[[2]int]string{}, parent: fr, depth: fr.depth + 1,
		fvLocs: map[*ssa.FreeVar]*Loc{}, fvVals: map[*ssa.FreeVar]string{}, closures: map[ssa.Value]*closureInfo{}, callSeq: map[string]int{}, rangeOf: map[ssa.Value]ssa.Value{},
		headerState: map[int]*State{}, fc: fr.fc}
	for i, p := range callee.Params {
		if i < len(args) {
			sub.vals[p] = args[i]
		}
	}
	if ci != nil {
		for i, fv := range callee.FreeVars {
			b := ci.bindings[i]
			// bindings are pointers to the captured variables, or values
			if l, ok := ci.frame.locs[b]; ok {
				sub.fvLocs[fv] = l
				sub.locs[fv] = l
			}
			if t, ok := ci.frame.vals[b]; ok {
				sub.fvVals[fv] = t
			}
		}
	}
	if tf := fr.top().fn; tf != nil {
		vc.note("inlined %s into %s", canonFunc(callee), tf.String())
	} else {
		vc.note("inlined %s", canonFunc(callee))
	}
	sub.run(st, g)
	if len(sub.rets) == 0 {
		// never returns (panics): results unconstrained
		var res []string
		for i := 0; i < callee.Signature.Results().Len(); i++ {
			res = append(res, vc.freshConst("nores", vc.sortOf(callee.Signature.Results().At(i).Type())))
		}
		return st, res
	}
	var ins []mergeIn
	for _, r := range sub.rets {
		ins = append(ins, mergeIn{r.guard, r.st})
	}
	out := mergeStates(vc, ins)
	var res []string
	for i := 0; i < callee.Signature.Results().Len(); i++ {
		if len(sub.rets) == 1 {
			res = append(res, sub.rets[0].results[i])
			continue
		}
		c := vc.freshConst(sub.prefix+"ret", vc.sortOf(callee.Signature.Results().At(i).Type()))
		for _, r := range sub.rets {
			vc.assume(implies(r.guard, eq(c, r.results[i])))
		}
		res = append(res, c)
	}
	return out, res
}

// unknownCall: callee without contract. Results are unconstrained; heap
// effects depend on whether the callee is in-repo (everything) or external
// (first level of pointer/slice/map arguments).
func (fr *Frame) unknownCall(st *State, g string, name string, argVals []ssa.Value, args []string, sig *types.Signature, havocAll bool) (*State, []string) {
	vc := fr.vc
	if havocAll {
		if t := fr.top(); t.fc != nil && t.fc.Kind == "func" && !t.modifiesAll() {
			vc.addObl(&Obligation{Name: fmt.Sprintf("%s#frame.heap@%s", vc.unit, sanitize(name)), Kind: "frame", Props: t.props(), Guard: g, Goal: "false",
				Src: "call to " + name + " which has no contract (all heaps havoc'ed) is reachable, but the contract has no `modifies heap`/`modifies all`"})
		}
		vc.note("call to %s without contract: all heaps havoc'ed, results unconstrained", name)
		fr.recordHavocAll(true, false)
		st = st.havoc(vc.fresh("call"), nil, true, false)
	} else {
		vc.trust("external %s has no contract: results unconstrained; assumed to modify only the first level of its pointer/slice/map arguments and to perform no tracked effect", name)
		for i, a := range argVals {
			if i >= len(args) {
				break
			}
			if l, ok := fr.locs[a]; ok && l.addr != "" || ok && len(l.path) > 0 {
				// interior pointer or known location: havoc exactly that location
				f := vc.freshConst("hvarg", vc.sortOf(l.resultType()))
				st = fr.store(st, l, f)
				continue
			}
			st = fr.havocArg(st, a.Type(), args[i])
		}
	}
	var res []string
	for i := 0; i < sig.Results().Len(); i++ {
		t := sig.Results().At(i).Type()
		c := vc.freshConst("r_"+sanitize(name), vc.sortOf(t))
		vc.assume(vc.rangeFact(c, t))
		res = append(res, c)
	}
	// references returned are below NEXT of the post state
	for i := 0; i < sig.Results().Len(); i++ {
		fr.refFacts(res[i], sig.Results().At(i).Type(), nil)
	}
	if !havocAll {
		// an external may allocate
		nv := vc.nextVar()
		n2 := vc.freshConst("NEXT", "Int")
		vc.assume(fmt.Sprintf("(<= %s %s)", st.get(nv), n2))
		fr.recordWrite(nv)
		st = st.set(nv, n2)
		for i := 0; i < sig.Results().Len(); i++ {
			fr.refFacts(res[i], sig.Results().At(i).Type(), st)
		}
	}
	return st, res
}

func (fr *Frame) havocArg(st *State, t types.Type, term string) *State {
	vc := fr.vc
	switch u := t.Underlying().(type) {
	case *types.Pointer:
		if _, isArr := u.Elem().Underlying().(*types.Array); isArr {
			hv := vc.arrHeapVar(u.Elem().Underlying().(*types.Array).Elem())
			f := vc.freshConst("hvarg", fmt.Sprintf("(Array %s %s)", vc.goInt(), vc.sortOf(u.Elem().Underlying().(*types.Array).Elem())))
			return fr.setVar(st, hv, fmt.Sprintf("(store %s %s %s)", st.get(hv), term, f))
		}
		hv := vc.heapVar(u.Elem())
		f := vc.freshConst("hvarg", vc.sortOf(u.Elem()))
		return fr.setVar(st, hv, fmt.Sprintf("(store %s %s %s)", st.get(hv), term, f))
	case *types.Slice:
		hv := vc.arrHeapVar(u.Elem())
		f := vc.freshConst("hvarg", fmt.Sprintf("(Array %s %s)", vc.goInt(), vc.sortOf(u.Elem())))
		return fr.setVar(st, hv, fmt.Sprintf("(store %s (sref %s) %s)", st.get(hv), term, f))
	case *types.Map:
		hv := vc.mapHeapVar(u)
		f := vc.freshConst("hvarg", vc.mapSort(u))
		return fr.setVar(st, hv, fmt.Sprintf("(store %s %s %s)", st.get(hv), term, f))
	}
	return st
}

// ------------------------------------------------------------- effects

func (vc *VC) effectVars(name string) (cnt, tm string, args []string) {
	ed := vc.eng.cs.Effects[name]
	if ed == nil {
		panic(unsupported("undeclared effect " + name))
	}
	cnt = vc.simpleVar("E_"+name+"_cnt", "Int")
	tm = vc.simpleVar("E_"+name+"_t", "Int")
	for i, p := range ed.Params {
		t := vc.eng.resolveType(p.T, vc.pkg)
		args = append(args, vc.simpleVar(fmt.Sprintf("E_%s_a%d", name, i), vc.sortOf(t)))
	}
	return
}

func (fr *Frame) emitEffect(st *State, name string, args []string) *State {
	vc := fr.vc
	t := fr.top()
	if t.fc != nil && !t.effectAllowed(name) {
		vc.addObl(&Obligation{Name: fmt.Sprintf("%s#frame.effect.%s", vc.unit, name), Kind: "frame", Props: t.props(),
			Guard: "true", Goal: "false", Src: "effect " + name + " is not listed in the function's effects clause"})
	}
	cnt, tm, avs := vc.effectVars(name)
	if t.entry != nil && !vc.declared["cnt0:"+name] {
		// an event counter is a count: non-negative at entry
		vc.declared["cnt0:"+name] = true
		vc.assume(fmt.Sprintf("(<= 0 %s)", t.entry.get(cnt)))
	}
	clk := vc.clkVar()
	st = fr.setVar(st, clk, fmt.Sprintf("(+ %s 1)", st.get(clk)))
	st = fr.setVar(st, cnt, fmt.Sprintf("(+ %s 1)", st.get(cnt)))
	st = fr.setVar(st, tm, st.get(clk))
	for i, av := range avs {
		if i < len(args) {
			st = fr.setVar(st, av, args[i])
		}
	}
	return st
}

func (fr *Frame) effectAllowed(name string) bool {
	if fr.fc == nil {
		return true
	}
	if fr.fc.Kind != "func" {
		return true
	}
	for _, e := range fr.fc.Effects {
		if e == name || e == "*" {
			return true
		}
	}
	return false
}

// ------------------------------------------------------ assumed contracts

// applyAssumed applies the contract of an external function, interface
// method or callback: requires are obligations, effects are emitted,
// modifies havoc'ed, ensures assumed.
func (fr *Frame) applyAssumed(st *State, g string, fc *FuncContract, name string, args []string, ptypes []types.Type, sig *types.Signature, pos token.Pos, site ssa.Instruction) (*State, []string) {
	vc := fr.vc
	vc.trust("assumed contract: %s %s (%s:%d)", fc.Kind, fc.Name, shortFile(fc.File), fc.Line)
	env := fr.newEnv(st, st)
	for i, p := range fc.Params {
		if i < len(args) && i < len(ptypes) {
			env.names[p.Name] = TV{term: args[i], typ: ptypes[i]}
		}
	}
	// self for methods
	if fc.Kind == "method" && len(args) > 0 {
		env.names["self"] = TV{term: args[0], typ: ptypes[0]}
	}
	fr.top().callSeq[fc.Name]++
	for k, c := range fc.Requires {
		t := fr.evalGoal(c, env, "requires of "+fc.Name)
		label := c.Label
		if label == "" {
			label = fmt.Sprint(k)
		}
		vc.addObl(&Obligation{Name: fmt.Sprintf("%s#pre@%s.%s.%d", vc.unit, fc.Name, label, fr.top().callSeq[fc.Name]), Kind: "pre", Props: fr.top().props(),
			Guard: g, Goal: t, Src: c.Src, File: c.File, Line: c.Line, Pos: vc.eng.pos(pos)})
	}
	pre := st
	// pure: result is an uninterpreted function of the arguments
	var res []string
	nres := sig.Results().Len()
	if fc.Pure {
		for i := 0; i < nres; i++ {
			rt := sig.Results().At(i).Type()
			fname := fmt.Sprintf("pure_%s_%d", sanitize(fc.Name), i)
			var sorts []string
			for j := range args {
				sorts = append(sorts, vc.sortOf(ptypes[j]))
			}
			vc.decl("f:"+fname, fmt.Sprintf("(declare-fun %s (%s) %s)", fname, strings.Join(sorts, " "), vc.sortOf(rt)))
			var t string
			if len(args) == 0 {
				t = fname
			} else {
				t = fmt.Sprintf("(%s %s)", fname, strings.Join(args, " "))
			}
			vc.assume(vc.rangeFact(t, rt))
			res = append(res, t)
		}
	} else {
		for i := 0; i < nres; i++ {
			rt := sig.Results().At(i).Type()
			c := vc.freshConst("r_"+sanitize(fc.Name), vc.sortOf(rt))
			vc.assume(vc.rangeFact(c, rt))
			res = append(res, c)
		}
	}
	for i, r := range fc.Results {
		if i < len(res) {
			env.names[r.Name] = TV{term: res[i], typ: sig.Results().At(i).Type()}
		}
	}
	if nres > 0 {
		env.names["result"] = TV{term: res[0], typ: sig.Results().At(0).Type()}
	}
	// effects
	for _, eu := range fc.EmitsEff {
		if eu.Post {
			continue
		}
		var eargs []string
		ed := vc.eng.cs.Effects[eu.Name]
		if ed == nil {
			panic(unsupported("undeclared effect " + eu.Name))
		}
		for i, a := range eu.Args {
			want := vc.eng.resolveType(ed.Params[i].T, vc.pkg)
			tv := env.eval(a, want)
			eargs = append(eargs, env.coerce(tv, want).term)
		}
		if eu.When != nil {
			cond := env.evalBool(eu.When)
			ns := fr.emitEffect(st, eu.Name, eargs)
			st = mergeStates(vc, []mergeIn{{cond, ns}, {not(cond), st}})
		} else {
			st = fr.emitEffect(st, eu.Name, eargs)
		}
	}
	// effects the external may emit through callbacks it is handed (havoc, monotone)
	if len(fc.Effects) > 0 {
		names := map[string]bool{}
		allGhost := false
		for _, e := range fc.Effects {
			if e == "*" {
				allGhost = true
				if t := fr.top(); t.fc != nil && !t.effectAllowed("*") {
					vc.addObl(&Obligation{Name: fmt.Sprintf("%s#frame.effect.any", vc.unit), Kind: "frame", Props: t.props(),
						Guard: "true", Goal: "false", Src: "callee " + fc.Name + " may emit any effect; the caller's effects clause must be `*`"})
				}
				continue
			}
			cnt, tm, avs := vc.effectVars(e)
			names[cnt], names[tm] = true, true
			for _, a := range avs {
				names[a] = true
			}
			if t := fr.top(); t.fc != nil && !t.effectAllowed(e) {
				vc.addObl(&Obligation{Name: fmt.Sprintf("%s#frame.effect.%s", vc.unit, e), Kind: "frame", Props: t.props(),
					Guard: "true", Goal: "false", Src: "callee " + fc.Name + " may emit effect " + e + " which is not listed in the caller's effects clause"})
			}
		}
		names[vc.clkVar()] = true
		for n := range names {
			fr.recordWrite(n)
		}
		if allGhost {
			fr.recordHavocAll(false, true)
		}
		st = st.havoc(vc.fresh("eff"), names, false, allGhost)
	}
	// function-valued parameters the callee may invoke: their own frame applies
	for _, pn := range fc.Invokes {
		st = fr.applyInvokes(st, g, fc, pn, site)
	}
	// modifies
	if !fc.Pure {
		st = fr.applyModifies(st, pre, fc, env, args, ptypes)
		// externals may allocate
		nv := vc.nextVar()
		n2 := vc.freshConst("NEXT", "Int")
		vc.assume(fmt.Sprintf("(<= %s %s)", st.get(nv), n2))
		fr.recordWrite(nv)
		st = st.set(nv, n2)
	}
	for i := 0; i < nres; i++ {
		fr.refFacts(res[i], sig.Results().At(i).Type(), st)
	}
	env.st, env.old = st, pre
	for _, c := range fc.Ensures {
		t := fr.evalClause(c, env, "ensures of "+fc.Name)
		vc.assume(implies(g, t))
	}
	st = fr.postEffects(st, fc, env)
	return st, res
}

// postEffects emits the ghost effects a contract attaches to the post-state.
func (fr *Frame) postEffects(st *State, fc *FuncContract, env *Env) *State {
	vc := fr.vc
	for _, eu := range fc.EmitsEff {
		if !eu.Post {
			continue
		}
		ed := vc.eng.cs.Effects[eu.Name]
		if ed == nil {
			panic(unsupported("undeclared effect " + eu.Name))
		}
		env.st = st
		var eargs []string
		for i, a := range eu.Args {
			want := vc.eng.resolveType(ed.Params[i].T, vc.pkg)
			eargs = append(eargs, env.coerce(env.eval(a, want), want).term)
		}
		if eu.When != nil {
			cond := env.evalBool(eu.When)
			ns := fr.emitEffect(st, eu.Name, eargs)
			st = mergeStates(vc, []mergeIn{{cond, ns}, {not(cond), st}})
		} else {
			st = fr.emitEffect(st, eu.Name, eargs)
		}
	}
	return st
}

func shortFile(f string) string {
	if i := strings.LastIndex(f, "/"); i >= 0 {
		return f[i+1:]
	}
	return f
}

// applyModifies havocs what a contract's modifies clause lists.
func (fr *Frame) applyModifies(st, pre *State, fc *FuncContract, env *Env, args []string, ptypes []types.Type) *State {
	vc := fr.vc
	for _, item := range fc.Modifies {
		item = strings.TrimSpace(item)
		switch {
		case item == "" || item == "nothing":
		case item == "all":
			fr.recordHavocAll(true, true)
			st = st.havoc(vc.fresh("mod"), nil, true, true)
		case item == "heap":
			fr.recordHavocAll(true, false)
			st = st.havoc(vc.fresh("mod"), nil, true, false)
		case strings.HasPrefix(item, "ghost "):
			name := "GH_" + strings.TrimSpace(item[6:])
			if _, ok := vc.svSorts[name]; !ok {
				vc.ghostVar(strings.TrimSpace(item[6:]))
			}
			fr.recordWrite(name)
			st = st.havoc(vc.fresh("mod"), map[string]bool{name: true}, false, false)
		case strings.HasPrefix(item, "maps "):
			// every map of the given type map[K]V may change: "maps K V"
			parts := strings.Fields(item[5:])
			if len(parts) != 2 {
				panic(bindErr("modifies maps K V"))
			}
			mt := types.NewMap(vc.eng.resolveType(mustParseType(parts[0]), env.pkg), vc.eng.resolveType(mustParseType(parts[1]), env.pkg))
			hv := vc.mapHeapVar(mt)
			fr.recordWrite(hv)
			st = st.havoc(vc.fresh("mod"), map[string]bool{hv: true}, false, false)
		case strings.HasPrefix(item, "array "):
			// every backing array with the named element type may change
			te, err := ParseType(strings.TrimSpace(item[6:]))
			if err != nil {
				panic(bindErr("bad modifies item " + item))
			}
			hv := vc.arrHeapVar(vc.eng.resolveType(te, env.pkg))
			fr.recordWrite(hv)
			st = st.havoc(vc.fresh("mod"), map[string]bool{hv: true}, false, false)
		case strings.HasPrefix(item, "type "):
			// every object of the named struct type may change
			t := vc.eng.resolveType(mustParseType(strings.TrimSpace(item[5:])), env.pkg)
			hv := vc.heapVar(t)
			fr.recordWrite(hv)
			st = st.havoc(vc.fresh("mod"), map[string]bool{hv: true}, false, false)
		case strings.HasPrefix(item, "global "):
			gname := strings.TrimSpace(item[7:])
			found := false
			for sv := range vc.svSorts {
				if strings.HasPrefix(sv, "G_") && strings.HasSuffix(sv, "."+gname) {
					fr.recordWrite(sv)
					st = st.havoc(vc.fresh("mod"), map[string]bool{sv: true}, false, false)
					found = true
				}
			}
			_ = found
		default:
			st = fr.havocPath(st, pre, item, env)
		}
	}
	return st
}

// havocPath handles modifies items: *p, p.f, p[*], p.f[*], m (map contents)
func (fr *Frame) havocPath(st, pre *State, item string, env *Env) *State {
	vc := fr.vc
	elems, inLen := false, false
	if strings.HasSuffix(item, "[*]") {
		elems = true
		item = strings.TrimSuffix(item, "[*]")
	} else if strings.HasSuffix(item, "[:]") {
		// x[:]: only the elements within the length of x
		elems, inLen = true, true
		item = strings.TrimSuffix(item, "[:]")
	}
	deref := false
	if strings.HasPrefix(item, "*") {
		deref = true
		item = item[1:]
	}
	e, err := ParseExpr(item)
	if err != nil {
		panic(unsupported("bad modifies item " + item))
	}
	penv := *env
	penv.st = pre
	if elems {
		tv := penv.eval(e, nil)
		switch u := tv.typ.Underlying().(type) {
		case *types.Slice:
			hv := vc.arrHeapVar(u.Elem())
			f := vc.freshConst("mod", fmt.Sprintf("(Array %s %s)", vc.goInt(), vc.sortOf(u.Elem())))
			if inLen && !vc.isBV() {
				oldArr := fmt.Sprintf("(select %s (sref %s))", st.get(hv), tv.term)
				vc.assume(fmt.Sprintf("(forall ((k Int)) (! (=> (or (< k (soff %s)) (>= k (+ (soff %s) (slen_ %s)))) (= (select %s k) (select %s k))) :pattern ((select %s k))))", tv.term, tv.term, tv.term, f, oldArr, f))
			}
			return fr.setVar(st, hv, fmt.Sprintf("(store %s (sref %s) %s)", st.get(hv), tv.term, f))
		case *types.Map:
			hv := vc.mapHeapVar(u)
			f := vc.freshConst("mod", vc.mapSort(u))
			return fr.setVar(st, hv, fmt.Sprintf("(store %s %s %s)", st.get(hv), tv.term, f))
		}
		panic(unsupported("modifies " + item + "[*]: not a slice or map"))
	}
	if deref {
		tv := penv.eval(e, nil)
		pt, ok := tv.typ.Underlying().(*types.Pointer)
		if !ok {
			panic(unsupported("modifies *" + item + ": not a pointer"))
		}
		hv := vc.heapVar(pt.Elem())
		f := vc.freshConst("mod", vc.sortOf(pt.Elem()))
		return fr.setVar(st, hv, fmt.Sprintf("(store %s %s %s)", st.get(hv), tv.term, f))
	}
	// p.f : a field of the object p points to
	if sel, ok := e.(ESel); ok {
		base := penv.eval(sel.X, nil)
		if pt, ok := base.typ.Underlying().(*types.Pointer); ok {
			if stt, ok := pt.Elem().Underlying().(*types.Struct); ok {
				for i := 0; i < stt.NumFields(); i++ {
					if stt.Field(i).Name() == sel.Sel {
						hv := vc.heapVar(pt.Elem())
						f := vc.freshConst("mod", vc.sortOf(stt.Field(i).Type()))
						vc.assume(vc.rangeFact(f, stt.Field(i).Type()))
						fr.refFacts(f, stt.Field(i).Type(), nil)
						obj := fmt.Sprintf("(select %s %s)", st.get(hv), base.term)
						return fr.setVar(st, hv, fmt.Sprintf("(store %s %s %s)", st.get(hv), base.term, vc.structUpdate(pt.Elem(), obj, i, f)))
					}
				}
			}
		}
	}
	// bare name of a map parameter
	tv := penv.eval(e, nil)
	if m, ok := tv.typ.Underlying().(*types.Map); ok {
		hv := vc.mapHeapVar(m)
		f := vc.freshConst("mod", vc.mapSort(m))
		return fr.setVar(st, hv, fmt.Sprintf("(store %s %s %s)", st.get(hv), tv.term, f))
	}
	panic(unsupported("modifies item not understood: " + item))
}

// applyContract: modular call of an in-repo function under contract.
func (fr *Frame) applyContract(st *State, g string, fc *FuncContract, callee *ssa.Function, args []string, pos token.Pos, site ssa.Instruction, ci *closureInfo) (*State, []string) {
	vc := fr.vc
	sig := callee.Signature
	env := fr.newEnv(st, st)
	env.pkg = callee.Pkg.Pkg
	var ptypes []types.Type
	for i, p := range callee.Params {
		if i < len(args) {
			env.names[p.Name()] = TV{term: args[i], typ: p.Type()}
			ptypes = append(ptypes, p.Type())
		}
	}
	if ci != nil {
		// direct call of a closure under contract: its captured variables are the caller's cells
		env.resolve = func(name string, s *State) (TV, bool) {
			for i, fv := range callee.FreeVars {
				if fv.Name() == name && i < len(ci.bindings) {
					if l, ok := ci.frame.locs[ci.bindings[i]]; ok {
						return TV{term: fr.load(s, l), typ: l.resultType(), loc: l}, true
					}
				}
			}
			return TV{}, false
		}
	}
	fr.top().callSeq[fc.Name]++
	seq := fr.top().callSeq[fc.Name]
	for k, c := range fc.Requires {
		t := fr.evalGoal(c, env, "requires of "+fc.Name)
		label := c.Label
		if label == "" {
			label = fmt.Sprint(k)
		}
		vc.addObl(&Obligation{Name: fmt.Sprintf("%s#pre@%s.%s.%d", vc.unit, fc.Name, label, seq), Kind: "pre", Props: unionProps(fr.top().props(), fc.Props),
			Guard: g, Goal: t, Src: c.Src, File: c.File, Line: c.Line, Pos: vc.eng.pos(pos)})
	}
	pre := st
	var res []string
	for i := 0; i < sig.Results().Len(); i++ {
		rt := sig.Results().At(i).Type()
		c := vc.freshConst("r_"+sanitize(fc.Name), vc.sortOf(rt))
		vc.assume(vc.rangeFact(c, rt))
		res = append(res, c)
	}
	// effects the callee may emit: havoc their ghost state (monotone)
	names := map[string]bool{}
	allGhost := false
	for _, e := range fc.Effects {
		if e == "*" {
			allGhost = true
			if t := fr.top(); t.fc != nil && !t.effectAllowed("*") {
				vc.addObl(&Obligation{Name: fmt.Sprintf("%s#frame.effect.any", vc.unit), Kind: "frame", Props: t.props(),
					Guard: "true", Goal: "false", Src: "callee " + fc.Name + " may emit any effect; the caller's effects clause must be `*`"})
			}
			continue
		}
		cnt, tm, avs := vc.effectVars(e)
		names[cnt], names[tm] = true, true
		for _, a := range avs {
			names[a] = true
		}
		// frame check in the caller
		t := fr.top()
		if t.fc != nil && !t.effectAllowed(e) {
			vc.addObl(&Obligation{Name: fmt.Sprintf("%s#frame.effect.%s", vc.unit, e), Kind: "frame", Props: t.props(),
				Guard: "true", Goal: "false", Src: "callee " + fc.Name + " may emit effect " + e + " which is not listed in the caller's effects clause"})
		}
	}
	if len(names) > 0 || allGhost {
		names[vc.clkVar()] = true
		for n := range names {
			fr.recordWrite(n)
		}
		if allGhost {
			fr.recordHavocAll(false, true)
		}
		st = st.havoc(vc.fresh("eff"), names, false, allGhost)
	}
	if ci != nil {
		// captured variables the closure body assigns get arbitrary values
		wr := closureWrites(callee)
		for i, b := range ci.bindings {
			if !wr[i] {
				continue
			}
			if l, ok := ci.frame.locs[b]; ok {
				f := vc.freshConst("capt", vc.sortOf(l.resultType()))
				vc.assume(vc.rangeFact(f, l.resultType()))
				fr.refFacts(f, l.resultType(), nil)
				st = fr.store(st, l, f)
			}
		}
	}
	st = fr.applyModifies(st, pre, fc, env, args, ptypes)
	if len(fc.Modifies) > 0 || returnsRefs(sig) {
		nv := vc.nextVar()
		n2 := vc.freshConst("NEXT", "Int")
		vc.assume(fmt.Sprintf("(<= %s %s)", st.get(nv), n2))
		fr.recordWrite(nv)
		st = st.set(nv, n2)
	}
	for i := 0; i < sig.Results().Len(); i++ {
		fr.refFacts(res[i], sig.Results().At(i).Type(), st)
	}
	env.st, env.old = st, pre
	bindResults(env, callee, res)
	for _, c := range fc.Ensures {
		t := fr.evalClause(c, env, "ensures of "+fc.Name)
		vc.assume(implies(g, t))
	}
	st = fr.postEffects(st, fc, env)
	return st, res
}

func unionProps(a, b []string) []string {
	seen := map[string]bool{}
	var out []string
	for _, x := range append(append([]string(nil), a...), b...) {
		if !seen[x] {
			seen[x] = true
			out = append(out, x)
		}
	}
	return out
}

func bindResults(env *Env, fn *ssa.Function, res []string) {
	sig := fn.Signature
	for i := 0; i < sig.Results().Len(); i++ {
		rv := sig.Results().At(i)
		tv := TV{term: res[i], typ: rv.Type()}
		env.names[fmt.Sprintf("result%d", i)] = tv
		if i == 0 {
			env.names["result"] = tv
		}
		if rv.Name() != "" && rv.Name() != "_" {
			env.names[rv.Name()] = tv
		}
	}
}

// call-site assertions: "at call NAME[#k]: expr"
func (fr *Frame) callSiteAsserts(st *State, g string, cname string, after bool, args []string, callee *ssa.Function, pos token.Pos, sig *types.Signature) {
	t := fr.top()
	if t.fc == nil || len(t.fc.Asserts) == 0 {
		return
	}
	short := cname
	for k, a := range t.fc.Asserts {
		if a.After {
			continue
		}
		if a.Callee == "sort.Slice" && strings.HasPrefix(a.C.Label, "less_is") {
			continue // the meaning of the comparison function: used by the model of sort.Slice
		}
		if !(short == a.Callee || strings.HasSuffix(short, "."+a.Callee) || strings.HasSuffix(short, "/"+a.Callee)) {
			continue
		}
		key := "assert:" + a.Callee
		t.callSeq[key+fmt.Sprint(k)]++
		if a.Index >= 0 {
			// NAME#k: the k-th call site of NAME in source order (not in translation order)
			if ord := t.sourceOrdinal(a.Callee, pos); ord >= 0 {
				if ord != a.Index {
					continue
				}
			} else if t.callSeq[key+fmt.Sprint(k)] != a.Index+1 {
				continue
			}
		}
		env := t.newEnvAt(st)
		if callee != nil {
			for i, p := range callee.Params {
				if i < len(args) {
					env.names["arg"+fmt.Sprint(i)] = TV{term: args[i], typ: p.Type()}
				}
			}
		}
		if callee == nil && sig != nil {
			// interface method / function value: arg0.. are the declared parameters (receiver excluded)
			for i := 0; i < sig.Params().Len() && i < len(args); i++ {
				env.names["arg"+fmt.Sprint(i)] = TV{term: args[i], typ: sig.Params().At(i).Type()}
			}
		}
		a := a
		tt, bound := t.tolerate(func() string { return t.evalGoal(a.C, env, "call-site assertion") })
		if !bound {
			continue
		}
		label := a.C.Label
		if label == "" {
			label = fmt.Sprint(k)
		}
		fr.vc.addObl(&Obligation{Name: fmt.Sprintf("%s#at@%s.%s.%d", fr.vc.unit, a.Callee, label, t.callSeq[key+fmt.Sprint(k)]), Kind: "assert", Props: t.props(),
			Guard: g, Goal: tt, Src: a.C.Src, File: a.C.File, Line: a.C.Line, Pos: fr.vc.eng.pos(pos)})
	}
}

func (fr *Frame) callSiteAssertsAfter(st *State, g string, cname string, args, res []string, callee *ssa.Function, pos token.Pos, pre *State) {
	t := fr.top()
	if t.fc == nil {
		return
	}
	for k, a := range t.fc.Asserts {
		if !a.After {
			continue
		}
		if !(cname == a.Callee || strings.HasSuffix(cname, "."+a.Callee)) {
			continue
		}
		key := fmt.Sprintf("assertafter:%s%d", a.Callee, k)
		t.callSeq[key]++
		if a.Index >= 0 {
			if ord := t.sourceOrdinal(a.Callee, pos); ord >= 0 {
				if ord != a.Index {
					continue
				}
			} else if t.callSeq[key] != a.Index+1 {
				continue
			}
		}
		env := t.newEnvAt(st)
		for i, p := range callee.Params {
			if i < len(args) {
				env.names["arg"+fmt.Sprint(i)] = TV{term: args[i], typ: p.Type()}
			}
		}
		for i := range res {
			env.names["ret"+fmt.Sprint(i)] = TV{term: res[i], typ: callee.Signature.Results().At(i).Type()}
		}
		a := a
		tt, bound := t.tolerate(func() string { return t.evalGoal(a.C, env, "call-site assertion") })
		if !bound {
			continue
		}
		label := a.C.Label
		if label == "" {
			label = fmt.Sprint(k)
		}
		fr.vc.addObl(&Obligation{Name: fmt.Sprintf("%s#after@%s.%s.%d", fr.vc.unit, a.Callee, label, t.callSeq[key]), Kind: "assert", Props: t.props(),
			Guard: g, Goal: tt, Src: a.C.Src, File: a.C.File, Line: a.C.Line, Pos: fr.vc.eng.pos(pos)})
	}
}

// ------------------------------------------------------------- builtins

func (fr *Frame) builtin(st *State, g string, b *ssa.Builtin, c *ssa.CallCommon, pos token.Pos) (*State, []string) {
	vc := fr.vc
	it := types.Typ[types.Int]
	switch b.Name() {
	case "len":
		a := c.Args[0]
		switch u := a.Type().Underlying().(type) {
		case *types.Basic:
			return st, []string{vc.strLen(fr.val(a))}
		case *types.Slice:
			return st, []string{fmt.Sprintf("(slen_ %s)", fr.val(a))}
		case *types.Array:
			return st, []string{vc.intLitN(u.Len(), it)}
		case *types.Map:
			mv := fr.val(a)
			ms := vc.mapSort(u)
			sz := fmt.Sprintf("(%s_size (select %s %s))", ms, st.get(vc.mapHeapVar(u)), mv)
			r := vc.freshConst("maplen", vc.sortOf(it))
			vc.assume(eq(r, ite(eq(mv, "0"), vc.intLitN(0, it), sz)))
			vc.assume(vc.leInt(vc.intLitN(0, it), r))
			return st, []string{r}
		case *types.Chan:
			r := vc.freshConst("chanlen", vc.sortOf(it))
			vc.assume(vc.leInt(vc.intLitN(0, it), r))
			return st, []string{r}
		case *types.Pointer:
			if arr, ok := u.Elem().Underlying().(*types.Array); ok {
				return st, []string{vc.intLitN(arr.Len(), it)}
			}
		}
	case "cap":
		a := c.Args[0]
		switch u := a.Type().Underlying().(type) {
		case *types.Slice:
			return st, []string{fmt.Sprintf("(scap %s)", fr.val(a))}
		case *types.Array:
			return st, []string{vc.intLitN(u.Len(), it)}
		}
	case "append":
		return fr.appendBuiltin(st, g, c, pos)
	case "copy":
		dst := fr.val(c.Args[0])
		sl := c.Args[0].Type().Underlying().(*types.Slice)
		preCopy := st
		st = fr.havocArg(st, c.Args[0].Type(), dst)
		var srclen string
		if _, isStr := c.Args[1].Type().Underlying().(*types.Basic); isStr {
			srclen = vc.strLen(fr.val(c.Args[1]))
		} else {
			srclen = fmt.Sprintf("(slen_ %s)", fr.val(c.Args[1]))
		}
		_ = sl
		n := vc.freshConst("copied", vc.sortOf(it))
		dl := fmt.Sprintf("(slen_ %s)", dst)
		vc.assume(eq(n, ite(vc.leInt(dl, srclen), dl, srclen)))
		if !vc.isBV() {
			// only the first n elements of dst change
			hv := vc.arrHeapVar(sl.Elem())
			newArr := fmt.Sprintf("(select %s (sref %s))", st.get(hv), dst)
			oldArr := fmt.Sprintf("(select %s (sref %s))", preCopy.get(hv), dst)
			vc.assume(fmt.Sprintf("(forall ((k Int)) (! (=> (or (< k (soff %s)) (>= k (+ (soff %s) %s))) (= (select %s k) (select %s k))) :pattern ((select %s k))))", dst, dst, n, newArr, oldArr, newArr))
			if _, isSl := c.Args[1].Type().Underlying().(*types.Slice); isSl {
				// memmove: element j of dst is the element j the source had before the copy
				src := fr.val(c.Args[1])
				srcArr := fmt.Sprintf("(select %s (sref %s))", preCopy.get(hv), src)
				vc.absIdx(dst, "0")
				vc.assume(fmt.Sprintf("(forall ((j Int)) (! (=> (and (<= 0 j) (< j %s)) (= (select %s (idx (soff %s) j)) (select %s (idx (soff %s) j)))) :pattern ((select %s (idx (soff %s) j)))))", n, newArr, dst, srcArr, src, newArr, dst))
			} else {
				vc.note("builtin copy in %s: the copied bytes of a string source are not tracked (only which elements change)", fr.fn.String())
			}
		} else {
			vc.note("builtin copy in %s: the copied element values are not tracked (only which elements change)", fr.fn.String())
		}
		return st, []string{n}
	case "delete":
		m := c.Args[0].Type().Underlying().(*types.Map)
		return fr.mapDelete(st, m, fr.val(c.Args[0]), fr.val(c.Args[1])), nil
	case "close":
		return st, nil
	case "print", "println":
		return st, nil
	case "min", "max":
		x, y := fr.val(c.Args[0]), fr.val(c.Args[1])
		t := c.Args[0].Type()
		lt, _ := vc.binop(token.LSS, x, y, t, t)
		if b.Name() == "min" {
			return st, []string{ite(lt, x, y)}
		}
		return st, []string{ite(lt, y, x)}
	case "recover":
		return st, []string{"(mk-iface 0 0)"}
	case "ssa:wrapnilchk":
		return st, []string{fr.val(c.Args[0])}
	}
	panic(unsupported("builtin " + b.Name() + " on " + c.Args[0].Type().String()))
}

// append(s, elems...): second argument is a slice (or string for []byte).
func (fr *Frame) appendBuiltin(st *State, g string, c *ssa.CallCommon, pos token.Pos) (*State, []string) {
	vc := fr.vc
	it := types.Typ[types.Int]
	s := fr.val(c.Args[0])
	sl := c.Args[0].Type().Underlying().(*types.Slice)
	et := sl.Elem()
	hv := vc.arrHeapVar(et)
	// number of appended elements and their values (when statically known)
	var n string
	var elems []string
	known := false
	arg := c.Args[1]
	switch at := arg.Type().Underlying().(type) {
	case *types.Basic:
		n = vc.strLen(fr.val(arg))
	case *types.Slice:
		_ = at
		n = fmt.Sprintf("(slen_ %s)", fr.val(arg))
		// the SSA builder creates: new [k]T array, stores, slice[:] -> recognise
		if slc, ok := arg.(*ssa.Slice); ok {
			if al, ok := slc.X.(*ssa.Alloc); ok && slc.Low == nil && slc.High == nil {
				if arr, ok := al.Type().Underlying().(*types.Pointer).Elem().Underlying().(*types.Array); ok && arr.Len() <= 4 {
					l := fr.locs[al]
					if l != nil {
						known = true
						for i := int64(0); i < arr.Len(); i++ {
							el := l.extend(step{isIndex: true, index: vc.intLitN(i, it), elem: et})
							elems = append(elems, fr.load(st, el))
						}
						n = vc.intLitN(arr.Len(), it)
					}
				}
			}
		}
	}
	ln := fmt.Sprintf("(slen_ %s)", s)
	cp := fmt.Sprintf("(scap %s)", s)
	off := fmt.Sprintf("(soff %s)", s)
	newLen := vc.addInt(ln, n)
	fits := vc.leInt(newLen, cp)
	var fresh string
	st, fresh = fr.alloc(st)
	heap := st.get(hv)
	oldArr := fmt.Sprintf("(select %s (sref %s))", heap, s)
	// in-place: same ref; grown: fresh ref with the same offsets and old contents
	newCap := vc.freshConst("newcap", vc.sortOf(it))
	vc.assume(vc.leInt(newLen, newCap))
	rref := ite(fits, fmt.Sprintf("(sref %s)", s), fresh)
	rref = ite(and(eq(fmt.Sprintf("(sref %s)", s), "0")), fresh, rref)
	res := fmt.Sprintf("(mk-slice %s %s %s %s)", rref, off, newLen, ite(fits, cp, newCap))
	var arr string
	if known {
		arr = oldArr
		for i, e := range elems {
			arr = fmt.Sprintf("(store %s %s %s)", arr, vc.absIdx(s, vc.addInt(ln, vc.intLitN(int64(i), it))), e)
		}
	} else {
		// appended region unknown: fresh array agreeing with the old one below off+len
		a := vc.freshConst("apparr", fmt.Sprintf("(Array %s %s)", vc.goInt(), vc.sortOf(et)))
		if !vc.isBV() {
			vc.assume(fmt.Sprintf("(forall ((k Int)) (! (=> (< k (+ %s %s)) (= (select %s k) (select %s k))) :pattern ((select %s k))))", off, ln, a, oldArr, a))
		} else {
			vc.assume(fmt.Sprintf("(forall ((k (_ BitVec 64))) (! (=> (bvslt k (bvadd %s %s)) (= (select %s k) (select %s k))) :pattern ((select %s k))))", off, ln, a, oldArr, a))
		}
		if _, isSl := arg.Type().Underlying().(*types.Slice); isSl && !vc.isBV() {
			// append(s, t...): the appended region holds the elements of t, in order
			src := fr.val(arg)
			srcArr := fmt.Sprintf("(select %s (sref %s))", heap, src)
			vc.absIdx(s, "0")
			vc.assume(fmt.Sprintf("(forall ((k Int)) (! (=> (and (<= %s k) (< k %s)) (= (select %s (idx %s k)) (select %s (idx (soff %s) (- k %s))))) :pattern ((select %s (idx %s k)))))", ln, newLen, a, off, srcArr, src, ln, a, off))
		}
		arr = a
	}
	st = fr.setVar(st, hv, fmt.Sprintf("(store %s %s %s)", heap, rref, arr))
	r := vc.freshConst("app", "Slice")
	vc.assume(eq(r, res))
	return st, []string{r}
}

func (fr *Frame) modifiesAll() bool {
	if fr.fc == nil {
		return true
	}
	for _, m := range fr.fc.Modifies {
		if m == "all" || m == "heap" {
			return true
		}
	}
	return false
}

// sortSearch: assumed contract of sort.Search(n, f) for an arbitrary predicate f
// (it follows from the loop invariant of the binary search, no monotonicity needed):
//
//	0 <= r <= n,  r < n ==> f(r),  r > 0 ==> !f(r-1)
//
// f(r) and f(r-1) are obtained by inlining the real closure body.
func (fr *Frame) sortSearch(st *State, g string, n string, mc *ssa.MakeClosure, pos token.Pos) (*State, []string) {
	vc := fr.vc
	it := types.Typ[types.Int]
	vc.trust("assumed contract of sort.Search: 0 <= r <= n, r < n ==> f(r), r > 0 ==> !f(r-1), with f the inlined closure (pure)")
	r := vc.freshConst("search", vc.sortOf(it))
	vc.assume(implies(g, and(vc.leInt(vc.intLitN(0, it), r), vc.leInt(r, n))))
	ci := fr.findClosure(mc)
	fn := mc.Fn.(*ssa.Function)
	g1 := and(g, vc.ltInt(r, n))
	st1, res1 := fr.inline(st, g1, fn, []string{r}, ci, pos)
	rm1 := vc.subInt(r, vc.intLitN(1, it))
	g2 := and(g, vc.ltInt(vc.intLitN(0, it), r))
	st2, res2 := fr.inline(st, g2, fn, []string{rm1}, ci, pos)
	if st1 != st || st2 != st {
		// the closure must be pure
		if st1.get(vc.nextVar()) != st.get(vc.nextVar()) {
			panic(unsupported("sort.Search predicate is not pure"))
		}
	}
	vc.assume(implies(g1, res1[0]))
	vc.assume(implies(g2, not(res2[0])))
	return st, []string{r}
}

func returnsRefs(sig *types.Signature) bool {
	for i := 0; i < sig.Results().Len(); i++ {
		switch sig.Results().At(i).Type().Underlying().(type) {
		case *types.Basic:
		default:
			return true
		}
	}
	return false
}

// variadicElems recognises the SSA pattern for f(a, b, c...) with explicit
// arguments: new [k]T; stores; slice[:]  and returns the element terms.
func (fr *Frame) variadicElems(st *State, argVals []ssa.Value) []string {
	if len(argVals) == 0 {
		return nil
	}
	last := argVals[len(argVals)-1]
	slc, ok := last.(*ssa.Slice)
	if !ok || slc.Low != nil || slc.High != nil {
		return nil
	}
	al, ok := slc.X.(*ssa.Alloc)
	if !ok {
		return nil
	}
	arr, ok := al.Type().Underlying().(*types.Pointer).Elem().Underlying().(*types.Array)
	if !ok || arr.Len() > 8 {
		return nil
	}
	l := fr.locs[al]
	if l == nil {
		return nil
	}
	var out []string
	for i := int64(0); i < arr.Len(); i++ {
		el := l.extend(step{isIndex: true, index: fr.vc.intLitN(i, types.Typ[types.Int]), elem: arr.Elem()})
		out = append(out, fr.load(st, el))
	}
	return out
}

func mustParseType(src string) TypeExpr {
	t, err := ParseType(src)
	if err != nil {
		panic(bindErr("bad type " + src))
	}
	return t
}

// sortSlice: sort.Slice(x, less). Assumed: the elements of x are permuted (modelled as: the
// backing array of x gets arbitrary contents) and nothing else changes. Its documented
// precondition - less must order the elements of x - is checked in the form available
// to a sequential contract: every slice variable the less closure reads is x itself.
func (fr *Frame) sortSlice(st *State, g string, x ssa.Value, mc *ssa.MakeClosure, pos token.Pos) (*State, []string) {
	vc := fr.vc
	vc.trust("assumed contract of sort.Slice: touches nothing but the elements of its slice argument")
	xs := fr.val(x)
	ci := fr.findClosure(mc)
	fn := mc.Fn.(*ssa.Function)
	n := 0
	for i, fv := range fn.FreeVars {
		pt, ok := fv.Type().Underlying().(*types.Pointer)
		if !ok {
			continue
		}
		if _, isSl := pt.Elem().Underlying().(*types.Slice); !isSl {
			continue
		}
		if ci == nil || i >= len(ci.bindings) {
			continue
		}
		l, ok := ci.frame.locs[ci.bindings[i]]
		if !ok {
			continue
		}
		cur := fr.load(st, l)
		vc.addObl(&Obligation{Name: fmt.Sprintf("%s#pre@sort.Slice.less_reads_sorted_slice.%d", vc.unit, n), Kind: "pre", Props: fr.top().props(), Guard: g,
			Goal: eq(cur, xs), Src: "the slice read by the less function (captured variable " + fv.Name() + ") is the slice being sorted", Pos: vc.eng.pos(pos)})
		n++
	}
	st0 := st
	sl := x.Type().Underlying().(*types.Slice)
	hv := vc.arrHeapVar(sl.Elem())
	es := vc.sortOf(sl.Elem())
	oldArr := fmt.Sprintf("(select %s (sref %s))", st.get(hv), xs)
	f := vc.freshConst("sorted", fmt.Sprintf("(Array %s %s)", vc.goInt(), es))
	st = fr.setVar(st, hv, fmt.Sprintf("(store %s (sref %s) %s)", st.get(hv), xs, f))
	if vc.isBV() {
		return st, nil
	}
	// the result is a permutation of the old contents: new[i] == old[perm(i)], perm a bijection
	// of [0, len) with inverse inv; elements outside the slice keep their values
	ln := fmt.Sprintf("(slen_ %s)", xs)
	perm := vc.fresh("perm")
	inv := vc.fresh("perminv")
	vc.decl("f:"+perm, fmt.Sprintf("(declare-fun %s (Int) Int)", perm))
	vc.decl("f:"+inv, fmt.Sprintf("(declare-fun %s (Int) Int)", inv))
	at := func(arr, i string) string { return fmt.Sprintf("(select %s %s)", arr, vc.absIdx(xs, i)) }
	vc.assume(implies(g, fmt.Sprintf("(forall ((i Int)) (! (=> (and (<= 0 i) (< i %s)) (and (<= 0 (%s i)) (< (%s i) %s) (= %s %s) (= (%s (%s i)) i))) :pattern (%s) :pattern ((%s i))))",
		ln, perm, perm, ln, at(f, "i"), at(oldArr, "("+perm+" i)"), inv, perm, at(f, "i"), perm)))
	vc.assume(implies(g, fmt.Sprintf("(forall ((j Int)) (! (=> (and (<= 0 j) (< j %s)) (and (<= 0 (%s j)) (< (%s j) %s) (= (%s (%s j)) j))) :pattern ((%s j)) :pattern (%s)))",
		ln, inv, inv, ln, perm, inv, inv, at(oldArr, "j"))))
	vc.assume(implies(g, fmt.Sprintf("(forall ((k Int)) (! (=> (or (< k (soff %s)) (>= k (+ (soff %s) %s))) (= (select %s k) (select %s k))) :pattern ((select %s k))))", xs, xs, ln, f, oldArr, f)))
	vc.trust("assumed contract of sort.Slice: the result is a permutation of the argument's elements")
	// sortedness: available when the less closure is under a contract `ensures result == E` whose
	// only captured variable is the sorted slice; then E must be a strict weak order (obligations)
	// and the documented result  forall a < b: !less(b, a)  is assumed
	// (a) the enclosing contract states what the comparison means at this call:
	//       at call sort.Slice: less_is: E        (E over i, j and arg0, the slice being sorted)
	//     then "the comparison function returns E" is an obligation (the function's body is inlined at
	//     two symbolic indices), E must be a strict weak order, and the sorted result is assumed. This
	//     does not depend on which closure object carries the comparison (it may move into a helper).
	if t := fr.top(); t.fc != nil && len(fn.Params) == 2 {
		for _, a := range t.fc.Asserts {
			if a.Callee != "sort.Slice" || a.After || !strings.HasPrefix(a.C.Label, "less_is") {
				continue
			}
			pre := st0
			lessAt := func(stt *State, ia, ib string) string {
				env := t.newEnvAt(stt)
				env.names["i"] = TV{term: ia, typ: types.Typ[types.Int]}
				env.names["j"] = TV{term: ib, typ: types.Typ[types.Int]}
				env.names["arg0"] = TV{term: xs, typ: x.Type()}
				return env.evalBool(a.C.E)
			}
			bound := true
			func() {
				defer func() {
					if r := recover(); r != nil {
						switch r.(type) {
						case evalErr, bindErr, unsupported:
							bound = false
						default:
							panic(r)
						}
					}
				}()
				lessAt(pre, "0", "0")
			}()
			if !bound {
				vc.unbound = append(vc.unbound, fmt.Sprintf("%s:%d: call-site clause `%s` does not bind at sort.Slice", shortFile(a.C.File), a.C.Line, a.C.Src))
				break
			}
			inr := func(v string) string { return fmt.Sprintf("(and (<= 0 %s) (< %s %s))", v, v, ln) }
			ai, aj := vc.freshConst("less_i", "Int"), vc.freshConst("less_j", "Int")
			g2 := and(g, inr(ai), inr(aj))
			stc, resc := fr.inline(pre, g2, fn, []string{ai, aj}, ci, pos)
			_ = stc
			vc.addObl(&Obligation{Name: fmt.Sprintf("%s#at@sort.Slice.%s", vc.unit, a.C.Label), Kind: "assert", Props: t.props(), Guard: g2,
				Goal: eq(resc[0], lessAt(pre, ai, aj)), Src: "the comparison function handed to sort.Slice computes: " + a.C.Src, File: a.C.File, Line: a.C.Line, Pos: vc.eng.pos(pos)})
			mk := func(name, goal, src string) {
				vc.addObl(&Obligation{Name: fmt.Sprintf("%s#pre@sort.Slice.%s", vc.unit, name), Kind: "pre", Props: t.props(), Guard: g, Goal: goal, Src: src, Pos: vc.eng.pos(pos)})
			}
			i, j, k := vc.freshConst("swo_i", "Int"), vc.freshConst("swo_j", "Int"), vc.freshConst("swo_k", "Int")
			rng := and(inr(i), inr(j), inr(k))
			ls := func(a, b string) string { return lessAt(st, a, b) }
			mk("less_irreflexive", implies(rng, not(ls(i, i))), "the less function is irreflexive on the elements being sorted")
			mk("less_transitive", implies(and(rng, ls(i, j), ls(j, k)), ls(i, k)), "the less function is transitive")
			mk("less_incomparability_transitive", implies(and(rng, not(ls(i, j)), not(ls(j, i)), not(ls(j, k)), not(ls(k, j))), and(not(ls(i, k)), not(ls(k, i)))),
				"incomparability under the less function is transitive (strict weak order)")
			vc.nfresh++
			qa, qb := fmt.Sprintf("qv!sa_%d", vc.nfresh), fmt.Sprintf("qv!sb_%d", vc.nfresh)
			vc.assume(implies(g, fmt.Sprintf("(forall ((%s Int) (%s Int)) (! (=> (and (<= 0 %s) (< %s %s) (< %s %s)) (not %s)) :pattern (%s %s)))", qa, qb, qa, qa, qb, qb, ln, ls(qb, qa), at(f, qa), at(f, qb))))
			vc.trust("assumed contract of sort.Slice: for a less function that is a strict weak order (checked) the result satisfies forall a < b: !less(b, a)")
			return st, nil
		}
	}
	// (b) the comparison closure itself is under a contract `ensures result == E`
	fc := vc.eng.contractFor(fn)
	if fc == nil || len(fn.Params) != 2 || len(fn.FreeVars) != 1 || n != 1 {
		vc.note("sort.Slice in %s: the less closure has no usable contract, sortedness of the result is not assumed", fr.fn.String())
		return st, nil
	}
	var lessE Expr
	for _, c := range fc.Ensures {
		if b, ok := c.E.(EBinary); ok && b.Op == "==" {
			if id, ok := b.X.(EIdent); ok && (id.Name == "result" || id.Name == "result0") {
				lessE = b.Y
			}
		}
	}
	if lessE == nil {
		vc.note("sort.Slice in %s: the less closure's contract has no clause of the form `result == E`, sortedness is not assumed", fr.fn.String())
		return st, nil
	}
	post := st
	less := func(a, b string) string {
		env := &Env{vc: vc, fr: fr, names: map[string]TV{}, st: post, old: post, pkg: fn.Pkg.Pkg, bound: map[string]TV{}}
		env.names[fn.Params[0].Name()] = TV{term: a, typ: fn.Params[0].Type()}
		env.names[fn.Params[1].Name()] = TV{term: b, typ: fn.Params[1].Type()}
		env.names[fn.FreeVars[0].Name()] = TV{term: xs, typ: x.Type()}
		return env.evalBool(lessE)
	}
	// the closure's contract must bind here (a renamed captured variable etc. makes it unusable)
	usable := true
	func() {
		defer func() {
			if r := recover(); r != nil {
				switch r.(type) {
				case evalErr, bindErr, unsupported:
					usable = false
				default:
					panic(r)
				}
			}
		}()
		less("0", "0")
	}()
	if !usable {
		vc.note("sort.Slice in %s: the contract of the less closure does not bind to the code, sortedness of the result is not assumed", fr.fn.String())
		return st, nil
	}
	inr := func(v string) string { return fmt.Sprintf("(and (<= 0 %s) (< %s %s))", v, v, ln) }
	mk := func(name, goal, src string) {
		vc.addObl(&Obligation{Name: fmt.Sprintf("%s#pre@sort.Slice.%s", vc.unit, name), Kind: "pre", Props: fr.top().props(), Guard: g, Goal: goal, Src: src, Pos: vc.eng.pos(pos)})
	}
	i, j, k := vc.freshConst("swo_i", "Int"), vc.freshConst("swo_j", "Int"), vc.freshConst("swo_k", "Int")
	rng := and(inr(i), inr(j), inr(k))
	mk("less_irreflexive", implies(rng, not(less(i, i))), "the less function is irreflexive on the elements being sorted")
	mk("less_transitive", implies(and(rng, less(i, j), less(j, k)), less(i, k)), "the less function is transitive")
	mk("less_incomparability_transitive", implies(and(rng, not(less(i, j)), not(less(j, i)), not(less(j, k)), not(less(k, j))), and(not(less(i, k)), not(less(k, i)))),
		"incomparability under the less function is transitive (strict weak order)")
	// assume sortedness with the bound variables as plain index arguments
	vc.nfresh++
	qa, qb := fmt.Sprintf("qv!sa_%d", vc.nfresh), fmt.Sprintf("qv!sb_%d", vc.nfresh)
	vc.assume(implies(g, fmt.Sprintf("(forall ((%s Int) (%s Int)) (! (=> (and (<= 0 %s) (< %s %s) (< %s %s)) (not %s)) :pattern (%s %s)))", qa, qb, qa, qa, qb, qb, ln, less(qb, qa), at(f, qa), at(f, qb))))
	vc.trust("assumed contract of sort.Slice: for a less function that is a strict weak order (checked) the result satisfies forall a < b: !less(b, a)")
	return st, nil
}

// applyInvokes: the external callee may call the function value passed as parameter pn any
// number of times. If that value is a closure created here whose body is under contract, the
// frame of that contract applies (its captured variables, its modifies items, its effects);
// otherwise everything may change.
func (fr *Frame) applyInvokes(st *State, g string, fc *FuncContract, pn string, site ssa.Instruction) *State {
	vc := fr.vc
	havocAll := func(why string) *State {
		vc.note("callee %s may invoke %s: %s — all heaps and ghost effects havoc'ed", fc.Name, pn, why)
		if t := fr.top(); t.fc != nil && t.fc.Kind == "func" {
			if !t.modifiesAll() {
				vc.addObl(&Obligation{Name: fmt.Sprintf("%s#frame.heap@%s", vc.unit, sanitize(fc.Name)), Kind: "frame", Props: t.props(), Guard: g, Goal: "false",
					Src: "callee " + fc.Name + " invokes a function value without a known contract, but the caller has no `modifies heap`"})
			}
			if !t.effectAllowed("*") {
				vc.addObl(&Obligation{Name: fmt.Sprintf("%s#frame.effect.any", vc.unit), Kind: "frame", Props: t.props(), Guard: "true", Goal: "false",
					Src: "callee " + fc.Name + " invokes a function value without a known contract; the caller's effects clause must be `*`"})
			}
		}
		fr.recordHavocAll(true, true)
		return st.havoc(vc.fresh("invk"), nil, true, true)
	}
	idx := -1
	for i, p := range fc.Params {
		if p.Name == pn {
			idx = i
		}
	}
	ci, ok := site.(ssa.CallInstruction)
	if idx < 0 || !ok {
		return havocAll("parameter not found")
	}
	c := ci.Common()
	var v ssa.Value
	if c.IsInvoke() {
		if idx == 0 {
			v = c.Value
		} else if idx-1 < len(c.Args) {
			v = c.Args[idx-1]
		}
	} else if idx < len(c.Args) {
		v = c.Args[idx]
	}
	for {
		if ct, ok := v.(*ssa.ChangeType); ok {
			v = ct.X
			continue
		}
		break
	}
	mc, ok := v.(*ssa.MakeClosure)
	if !ok {
		return havocAll("not a closure created at the call site")
	}
	fn := mc.Fn.(*ssa.Function)
	cfc := vc.eng.contractFor(fn)
	if cfc == nil || cfc.Kind != "func" {
		return havocAll("closure " + canonFunc(fn) + " has no contract")
	}
	vc.note("callee %s may invoke closure %s: the closure's own frame (captured variables, modifies, effects) applies", fc.Name, canonFunc(fn))
	cinfo := fr.findClosure(mc)
	// captured variables
	if cinfo != nil {
		for _, b := range cinfo.bindings {
			if l, ok := cinfo.frame.locs[b]; ok {
				f := vc.freshConst("capt", vc.sortOf(l.resultType()))
				vc.assume(vc.rangeFact(f, l.resultType()))
				fr.refFacts(f, l.resultType(), nil)
				st = fr.store(st, l, f)
			}
		}
	}
	// effects
	names := map[string]bool{}
	allGhost := false
	for _, e := range cfc.Effects {
		if e == "*" {
			allGhost = true
			if t := fr.top(); t.fc != nil && !t.effectAllowed("*") {
				vc.addObl(&Obligation{Name: fmt.Sprintf("%s#frame.effect.any", vc.unit), Kind: "frame", Props: t.props(), Guard: "true", Goal: "false",
					Src: "closure " + cfc.Name + " may emit any effect; the caller's effects clause must be `*`"})
			}
			continue
		}
		cnt, tm, avs := vc.effectVars(e)
		names[cnt], names[tm] = true, true
		for _, a := range avs {
			names[a] = true
		}
		if t := fr.top(); t.fc != nil && !t.effectAllowed(e) {
			vc.addObl(&Obligation{Name: fmt.Sprintf("%s#frame.effect.%s", vc.unit, e), Kind: "frame", Props: t.props(), Guard: "true", Goal: "false",
				Src: "closure " + cfc.Name + " may emit effect " + e + " which is not listed in the caller's effects clause"})
		}
	}
	if len(names) > 0 || allGhost {
		names[vc.clkVar()] = true
		for n := range names {
			fr.recordWrite(n)
		}
		if allGhost {
			fr.recordHavocAll(false, true)
		}
		st = st.havoc(vc.fresh("invk"), names, false, allGhost)
	}
	// modifies items of the closure, evaluated with its captured variables bound to the caller's cells
	env := fr.newEnv(st, st)
	env.pkg = fn.Pkg.Pkg
	if cinfo != nil {
		env.resolve = func(name string, s *State) (TV, bool) {
			for i, fv := range fn.FreeVars {
				if fv.Name() == name && i < len(cinfo.bindings) {
					if l, ok := cinfo.frame.locs[cinfo.bindings[i]]; ok {
						return TV{term: fr.load(s, l), typ: l.resultType()}, true
					}
				}
			}
			return TV{}, false
		}
	}
	ok2 := true
	func() {
		defer func() {
			if r := recover(); r != nil {
				switch r.(type) {
				case unsupported, bindErr, evalErr:
					ok2 = false
				default:
					panic(r)
				}
			}
		}()
		st = fr.applyModifies(st, st, cfc, env, nil, nil)
	}()
	if !ok2 {
		return havocAll("modifies clause of " + cfc.Name + " cannot be evaluated at the call site")
	}
	return st
}

// closureWrites: indices of the free variables a closure body may assign: every use of the free
// variable other than as the address of a load counts as a write.
func closureWrites(fn *ssa.Function) map[int]bool {
	out := map[int]bool{}
	for i, fv := range fn.FreeVars {
		refs := fv.Referrers()
		if refs == nil {
			out[i] = true
			continue
		}
		for _, r := range *refs {
			if u, ok := r.(*ssa.UnOp); ok && u.Op == token.MUL && u.X == fv {
				continue
			}
			if _, ok := r.(*ssa.DebugRef); ok {
				continue
			}
			out[i] = true
		}
	}
	return out
}

// siteName: the name under which a call site is matched by `at call NAME`.
func (fr *Frame) siteName(c *ssa.CallCommon) string {
	if _, ok := c.Value.(*ssa.Builtin); ok {
		return ""
	}
	if c.IsInvoke() {
		if mi, ok := c.Value.(*ssa.MakeInterface); ok {
			if callee := fr.vc.eng.prog.LookupMethod(mi.X.Type(), c.Method.Pkg(), c.Method.Name()); callee != nil {
				return canonFunc(callee)
			}
		}
		return ifaceMethodName(c.Value.Type(), c.Method)
	}
	if callee := c.StaticCallee(); callee != nil {
		return canonFunc(callee)
	}
	return fr.funcValueKey(c.Value)
}

// sourceOrdinal: index of the call at pos among the call sites of the function whose name
// matches callee, ordered by source position; -1 if the call is not a site of this function
// (inlined callee).
func (fr *Frame) sourceOrdinal(callee string, pos token.Pos) int {
	var ps []token.Pos
	for _, b := range fr.fn.Blocks {
		for _, in := range b.Instrs {
			ci, ok := in.(ssa.CallInstruction)
			if !ok {
				continue
			}
			n := fr.siteName(ci.Common())
			if n == callee || strings.HasSuffix(n, "."+callee) || strings.HasSuffix(n, "/"+callee) {
				ps = append(ps, in.Pos())
			}
		}
	}
	sort.Slice(ps, func(i, j int) bool { return ps[i] < ps[j] })
	for i, p := range ps {
		if p == pos {
			return i
		}
	}
	return -1
}
