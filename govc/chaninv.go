package main

import (
	"fmt"
	"go/types"
	"sort"
	"strings"

	"golang.org/x/tools/go/ssa"
	"golang.org/x/tools/go/ssa/ssautil"
)

// chanInvScan: the two module-wide side conditions of a channel invariant, checked syntactically
// over the SSA of every function of the module (not only those under contract):
//  1. every send of a value of the element type happens in a function under contract (where the
//     invariant is an obligation) - the others are listed;
//  2. the invariant is stable between send and receive: fields of the element's struct type are
//     written only through a pointer that is an allocation of the same function (a composite
//     literal being built), never through a pointer that may already have been sent.
//
// The result is a sentence for the list of assumptions.
func (eng *Engine) chanInvScan(ci *ChanInv, elem types.Type) string {
	if eng.chanScan == nil {
		eng.chanScan = map[string]string{}
	}
	if s, ok := eng.chanScan[ci.Pred]; ok {
		return s
	}
	var st types.Type
	if pt, ok := elem.Underlying().(*types.Pointer); ok {
		st = pt.Elem()
	}
	var unsent, writes []string
	for fn := range ssautil.AllFunctions(eng.prog) {
		if fn.Pkg == nil || !strings.HasPrefix(fn.Pkg.Pkg.Path(), modPath) {
			continue
		}
		underContract := false
		for f := fn; f != nil; f = f.Parent() {
			if fc := eng.contractFor(f); fc != nil && fc.Kind == "func" && !fc.Trusted {
				underContract = true
			}
			if f != fn {
				// a closure without its own contract is only covered when it is inlined into its parent
				break
			}
		}
		if fc := eng.contractFor(fn); fc == nil && fn.Parent() != nil && !underContract {
			if pc := eng.contractFor(fn.Parent()); pc != nil && pc.Kind == "func" && eng.inlinable(fn, true) {
				underContract = true
			}
		}
		for _, b := range fn.Blocks {
			for _, in := range b.Instrs {
				switch x := in.(type) {
				case *ssa.Send:
					if ct, ok := x.Chan.Type().Underlying().(*types.Chan); ok && types.Identical(deepUnalias(ct.Elem()), deepUnalias(elem)) && !underContract {
						unsent = append(unsent, fn.String())
					}
				case *ssa.Select:
					for _, s := range x.States {
						if s.Dir == types.SendOnly {
							if ct, ok := s.Chan.Type().Underlying().(*types.Chan); ok && types.Identical(deepUnalias(ct.Elem()), deepUnalias(elem)) && !underContract {
								unsent = append(unsent, fn.String())
							}
						}
					}
				case *ssa.Store:
					if st == nil {
						continue
					}
					fa, ok := x.Addr.(*ssa.FieldAddr)
					if !ok {
						continue
					}
					pt, ok := fa.X.Type().Underlying().(*types.Pointer)
					if !ok || !types.Identical(deepUnalias(pt.Elem()), deepUnalias(st)) {
						continue
					}
					if _, isAlloc := fa.X.(*ssa.Alloc); !isAlloc {
						writes = append(writes, fn.String())
					}
				}
			}
		}
	}
	sort.Strings(unsent)
	sort.Strings(writes)
	s := fmt.Sprintf("sends of that type in functions of the module that are not under contract: %s; writes to fields of the element struct through a pointer that is not a fresh allocation of the writing function: %s",
		orNone(uniq(unsent)), orNone(uniq(writes)))
	eng.chanScan[ci.Pred] = s
	return s
}

func uniq(a []string) []string {
	var out []string
	for i, s := range a {
		if i == 0 || a[i-1] != s {
			out = append(out, s)
		}
	}
	return out
}

func orNone(a []string) string {
	if len(a) == 0 {
		return "none"
	}
	return strings.Join(a, ", ")
}
