package main

import (
	"fmt"
	"go/token"
	"go/types"
	"os"
	"path/filepath"
	"sort"
	"strings"

	"golang.org/x/tools/go/packages"
	"golang.org/x/tools/go/ssa"
	"golang.org/x/tools/go/ssa/ssautil"
)

const modPath = "github.com/tonistiigi/fsutil"

type Engine struct {
	repo        string
	fset        *token.FileSet
	prog        *ssa.Program
	pkgs        []*packages.Package
	allPkgs     map[string]*types.Package // by path
	ssaPkgs     map[string]*ssa.Package
	cs          *Contracts
	typeIDs     map[string]int
	funcIDs     map[string]int
	mathint     *types.Named
	inlCache    map[*ssa.Function]bool
	stateSorts  map[string]string
	prevWrites  map[string]map[int]*writeSet
	funcsByName map[string]*ssa.Function
	houdini     map[string]*houdiniState
	imports     map[string]string // alias -> package path (from contract files)
	prevVC      *VC
	solvers     *Solvers
	workers     int
	chanScan    map[string]string
}

func NewEngine(repo string) (*Engine, error) {
	eng := &Engine{repo: repo, allPkgs: map[string]*types.Package{}, ssaPkgs: map[string]*ssa.Package{}, typeIDs: map[string]int{},
		funcIDs: map[string]int{}, inlCache: map[*ssa.Function]bool{}, prevWrites: map[string]map[int]*writeSet{},
		funcsByName: map[string]*ssa.Function{}, houdini: map[string]*houdiniState{}, imports: map[string]string{}}
	eng.mathint = types.NewNamed(types.NewTypeName(token.NoPos, nil, "mathint", nil), types.Typ[types.Int], nil)
	cfg := &packages.Config{Mode: packages.LoadAllSyntax, Dir: repo, BuildFlags: []string{"-tags=verif"}, Tests: false}
	pkgs, err := packages.Load(cfg, "./...")
	if err != nil {
		return nil, err
	}
	var errs []string
	for _, p := range pkgs {
		for _, e := range p.Errors {
			errs = append(errs, e.Error())
		}
	}
	if len(errs) > 0 {
		return nil, fmt.Errorf("package load errors:\n%s", strings.Join(errs, "\n"))
	}
	eng.pkgs = pkgs
	if len(pkgs) > 0 {
		eng.fset = pkgs[0].Fset
	}
	prog, _ := ssautil.AllPackages(pkgs, ssa.InstantiateGenerics|ssa.GlobalDebug)
	prog.Build()
	eng.prog = prog
	for _, sp := range prog.AllPackages() {
		eng.ssaPkgs[sp.Pkg.Path()] = sp
		eng.allPkgs[sp.Pkg.Path()] = sp.Pkg
	}
	for fn := range ssautil.AllFunctions(prog) {
		if fn.Pkg == nil && fn.Origin() == nil {
			continue
		}
		name := canonFunc(fn)
		if old, ok := eng.funcsByName[name]; ok {
			// prefer non-synthetic, non-instantiated originals... but instantiations are what we verify
			if old.Synthetic == "" && fn.Synthetic != "" {
				continue
			}
			if len(old.TypeArgs()) > 0 && len(fn.TypeArgs()) == 0 {
				continue
			}
		}
		eng.funcsByName[name] = fn
	}
	return eng, nil
}

func (eng *Engine) pos(p token.Pos) string {
	if !p.IsValid() || eng.fset == nil {
		return ""
	}
	ps := eng.fset.Position(p)
	f := ps.Filename
	if strings.HasPrefix(f, eng.repo+"/") {
		f = f[len(eng.repo)+1:]
	}
	return fmt.Sprintf("%s:%d", f, ps.Line)
}

// LoadContracts reads /repo/**/contracts_verif.go and extra contract files.
func (eng *Engine) LoadContracts(extra []string) error {
	eng.cs = NewContracts()
	for _, p := range eng.pkgs {
		if !strings.HasPrefix(p.PkgPath, modPath) {
			continue
		}
		for _, f := range p.GoFiles {
			if strings.HasSuffix(f, "contracts_verif.go") {
				if err := eng.cs.ReadFile(f, p.PkgPath); err != nil {
					return err
				}
			}
		}
	}
	for _, f := range extra {
		if err := eng.cs.ReadFile(f, ""); err != nil {
			return err
		}
	}
	return nil
}

func (eng *Engine) pkgByPath(path string, def *types.Package) *types.Package {
	if p, ok := eng.allPkgs[path]; ok {
		return p
	}
	return def
}

// findPackage resolves a package qualifier used in a contract expression.
func (eng *Engine) findPackage(name string, from *types.Package) *types.Package {
	if from != nil {
		for _, imp := range from.Imports() {
			if imp.Name() == name {
				return imp
			}
		}
	}
	var cands []*types.Package
	for _, p := range eng.allPkgs {
		if p.Name() == name {
			cands = append(cands, p)
		}
	}
	if len(cands) == 0 {
		return nil
	}
	sort.Slice(cands, func(i, j int) bool {
		// prefer standard library (no dot in first path element), then shorter paths
		si := !strings.Contains(strings.SplitN(cands[i].Path(), "/", 2)[0], ".")
		sj := !strings.Contains(strings.SplitN(cands[j].Path(), "/", 2)[0], ".")
		if si != sj {
			return si
		}
		// prefer non-internal
		ii := strings.Contains(cands[i].Path(), "internal")
		ij := strings.Contains(cands[j].Path(), "internal")
		if ii != ij {
			return !ii
		}
		return len(cands[i].Path()) < len(cands[j].Path())
	})
	return cands[0]
}

func (eng *Engine) resolveType(t TypeExpr, from *types.Package) types.Type {
	switch t.Kind {
	case "slice":
		return types.NewSlice(eng.resolveType(*t.Elem, from))
	case "ptr":
		return types.NewPointer(eng.resolveType(*t.Elem, from))
	case "map":
		return types.NewMap(eng.resolveType(*t.Key, from), eng.resolveType(*t.Elem, from))
	}
	if t.Pkg == "" {
		if t.Name == "mathint" {
			return eng.mathint
		}
		if t.Name == "struct{}" {
			return types.NewStruct(nil, nil)
		}
		if obj := types.Universe.Lookup(t.Name); obj != nil {
			if tn, ok := obj.(*types.TypeName); ok {
				return tn.Type()
			}
		}
		if from != nil {
			if obj := from.Scope().Lookup(t.Name); obj != nil {
				if tn, ok := obj.(*types.TypeName); ok {
					return tn.Type()
				}
			}
		}
		// search in-repo packages
		for path, p := range eng.allPkgs {
			if strings.HasPrefix(path, modPath) {
				if tn, ok := p.Scope().Lookup(t.Name).(*types.TypeName); ok {
					return tn.Type()
				}
			}
		}
		panic(bindErr("unknown type " + t.Name))
	}
	p := eng.findPackage(t.Pkg, from)
	if p == nil {
		panic(bindErr("unknown package " + t.Pkg))
	}
	if tn, ok := p.Scope().Lookup(t.Name).(*types.TypeName); ok {
		return tn.Type()
	}
	panic(bindErr("unknown type " + t.String()))
}

func (eng *Engine) lookupMethod(t types.Type, name string) *ssa.Function {
	ms := eng.prog.MethodSets.MethodSet(t)
	for i := 0; i < ms.Len(); i++ {
		if ms.At(i).Obj().Name() == name {
			return eng.prog.MethodValue(ms.At(i))
		}
	}
	if _, isPtr := t.(*types.Pointer); !isPtr {
		ms = eng.prog.MethodSets.MethodSet(types.NewPointer(t))
		for i := 0; i < ms.Len(); i++ {
			if ms.At(i).Obj().Name() == name {
				return eng.prog.MethodValue(ms.At(i))
			}
		}
	}
	return nil
}

// findFunc locates the SSA function for a contract key (pkgpath.Name).
func (eng *Engine) findFunc(fc *FuncContract) *ssa.Function {
	want := shortPkg(fc.Pkg) + "." + fc.Name
	if fn, ok := eng.funcsByName[want]; ok {
		return fn
	}
	return nil
}

// ------------------------------------------------------------ verification of one function

type UnitResult struct {
	Unit       string
	Kind       string // func | lemma
	Props      []string
	File       string
	Pos        string
	Mode       string
	NInstr     int
	Loops      int
	LoopsAnnot int
	Obls       []*Obligation
	Unbound    []string // clauses that did not bind to the code (skipped)
	Incomplete []string // modelling gaps: undischarged obligations of the unit are undecided
	Notes      []string
	Trusted    []string
	Err        string // binding/unsupported error: unit undecided
	ErrKind    string // bind | unsupported
	fn         *ssa.Function
	fc         *FuncContract
	vc         *VC
}

func (eng *Engine) VerifyFunc(key string) (res *UnitResult) {
	fc := eng.cs.Funcs[key]
	res = &UnitResult{Unit: shortPkg(fc.Pkg) + "." + fc.Name, Kind: "func", Props: fc.Props, File: fc.File, fc: fc}
	fn := eng.findFunc(fc)
	if fn == nil {
		res.Err = fmt.Sprintf("contract %s (%s:%d) does not bind: no such function in the current tree", res.Unit, shortFile(fc.File), fc.Line)
		res.ErrKind = "bind"
		return
	}
	res.fn = fn
	res.Pos = eng.pos(fn.Pos())
	mode := fc.Mode
	if mode == "" {
		mode = "int"
	}
	res.Mode = mode
	for _, b := range fn.Blocks {
		res.NInstr += len(b.Instrs)
	}
	if fc.Trusted {
		res.Notes = append(res.Notes, "contract is trusted (body not verified): "+strings.Join(fc.Notes, "; "))
		res.Trusted = append(res.Trusted, fmt.Sprintf("trusted in-repo contract %s (body not verified)", res.Unit))
		return
	}
	defer func() {
		if r := recover(); r != nil {
			switch e := r.(type) {
			case unsupported:
				res.Err = "outside the verifier's subset: " + string(e)
				res.ErrKind = "unsupported"
			case bindErr:
				res.Err = "contract does not bind: " + string(e)
				res.ErrKind = "bind"
			case evalErr:
				res.Err = "contract does not bind: " + string(e)
				res.ErrKind = "bind"
			default:
				panic(r)
			}
		}
	}()
	// pass 1: discover what each block writes (for loop havoc sets)
	delete(eng.prevWrites, res.Unit)
	vc1, fr1 := eng.translate(res.Unit, mode, fn, fc, true)
	eng.prevWrites[res.Unit] = fr1.writes
	eng.prevVC = vc1
	// houdini inference of simple invariants for loops without annotation (pass 2 repeated)
	vc, fr := eng.inferAndTranslate(res.Unit, mode, fn, fc)
	// completeness check of the recorded write sets
	for bi, ws := range fr.writes {
		p := fr1.writes[bi]
		if p == nil {
			p = &writeSet{names: map[string]bool{}}
		}
		for n := range ws.names {
			if !p.names[n] && fr.inLoop(bi) {
				panic(unsupported(fmt.Sprintf("internal: write set of block %d changed between passes (%s)", bi, n)))
			}
		}
	}
	res.vc = vc
	res.Unbound = vc.unbound
	res.Incomplete = vc.incomplete
	res.Obls = vc.obls
	res.Notes = vc.notes
	for t := range vc.trusted {
		res.Trusted = append(res.Trusted, t)
	}
	sort.Strings(res.Trusted)
	res.Loops = len(fr.loops)
	for _, li := range fr.loops {
		if li.spec != nil && len(li.spec.Invariants) > 0 {
			res.LoopsAnnot++
		}
	}
	return
}

func (eng *Engine) newFrame(vc *VC, fn *ssa.Function, fc *FuncContract) *Frame {
	return &Frame{vc: vc, fn: fn, fc: fc, vals: map[ssa.Value]string{}, tuples: map[ssa.Value][]string{}, locs: map[ssa.Value]*Loc{},
		guards: map[int]string{}, exits: map[int]*State{}, edge: map[[2]int]string{}, isTop: true, writes: map[int]*writeSet{},
		fvLocs: map[*ssa.FreeVar]*Loc{}, fvVals: map[*ssa.FreeVar]string{}, closures: map[ssa.Value]*closureInfo{}, callSeq: map[string]int{},
		rangeOf: map[ssa.Value]ssa.Value{}, headerState: map[int]*State{}}
}

// translate builds the VC of one function: assumes requires, runs the body,
// emits obligations for ensures at every return.
func (eng *Engine) translate(unit, mode string, fn *ssa.Function, fc *FuncContract, discovery bool) (*VC, *Frame) {
	var pkg *types.Package
	if fn.Pkg != nil {
		pkg = fn.Pkg.Pkg
	}
	vc := newVC(eng, unit, mode, pkg)
	vc.svSorts = map[string]string{}
	if !discovery && eng.prevVC != nil && eng.prevVC.unit == unit {
		// register the state variables discovered in pass 1 (their sorts may be needed at loop headers)
		for t := range eng.prevVC.heapTypes {
			vc.heapVar(t)
		}
		for _, t := range eng.prevVC.arrTypes {
			vc.arrHeapVar(t)
		}
		for _, m := range eng.prevVC.mapTypes {
			vc.mapHeapVar(m)
		}
	}
	vc.opaque = map[string]bool{}
	for _, o := range fc.Opaque {
		vc.opaque[o] = true
	}
	fr := eng.newFrame(vc, fn, fc)
	entry := vc.rootState()
	// lemmas in use
	for _, ln := range fc.Uses {
		l := eng.cs.Lemmas[ln]
		if l == nil {
			panic(bindErr("unknown lemma " + ln))
		}
		env := fr.newEnv(entry, entry)
		vc.assume(fr.evalClause(l.C, env, "lemma "+ln))
		if l.Axiom {
			vc.trust("axiom %s: %s", ln, strings.TrimSpace(l.C.Src))
		} else {
			vc.note("uses lemma %s (proved separately)", ln)
		}
	}
	vc.lemmaTerms = map[string]string{}
	for _, ln := range fc.Lemmas {
		l := eng.cs.Lemmas[ln]
		if l == nil {
			panic(bindErr("unknown lemma " + ln))
		}
		env := fr.newEnv(entry, entry)
		vc.lemmaTerms[ln] = fr.evalClause(l.C, env, "lemma "+ln)
		if l.Axiom {
			vc.trust("axiom %s: %s", ln, strings.TrimSpace(l.C.Src))
		} else {
			vc.note("lemma %s (proved separately) is available to individual clauses", ln)
		}
	}
	// declare parameters
	for _, p := range fn.Params {
		fr.val(p)
	}
	env := fr.newEnv(entry, entry)
	fr.bindParams(env)
	fr.entry = entry
	fvResolve := func(name string, st *State) (TV, bool) {
		for _, fv := range fn.FreeVars {
			if fv.Name() == name {
				l := fr.locOf(st, "true", fv, false, token.NoPos)
				return TV{term: fr.load(st, l), typ: l.resultType(), loc: l}, true
			}
		}
		return TV{}, false
	}
	env.resolve = fvResolve
	for _, c := range fc.Requires {
		vc.assume(fr.evalClause(c, env, "requires"))
	}
	if !discovery && fn.Parent() == nil {
		fr.wantParamValues(entry)
		vc.replayFrame = fr
	}
	fr.run(entry, "true")
	// postconditions: all returns are merged into one exit point (one obligation per ensures clause)
	if len(fr.rets) > 0 {
		var ins []mergeIn
		var gs []string
		for _, r := range fr.rets {
			ins = append(ins, mergeIn{r.guard, r.st})
			gs = append(gs, r.guard)
		}
		exit := mergeStates(vc, ins)
		exitGuard := or(gs...)
		var results []string
		for i := 0; i < fn.Signature.Results().Len(); i++ {
			if len(fr.rets) == 1 {
				results = append(results, fr.rets[0].results[i])
				continue
			}
			c := vc.freshConst("ret", vc.sortOf(fn.Signature.Results().At(i).Type()))
			for _, r := range fr.rets {
				vc.assume(implies(r.guard, eq(c, r.results[i])))
			}
			results = append(results, c)
		}
		if len(fr.rets) > 1 {
			// exactly the guards are mutually exclusive by construction; name the exit guard
			gc := vc.freshConst("g_exit", "Bool")
			vc.assume(eq(gc, exitGuard))
			exitGuard = gc
		}
		penv := fr.newEnv(exit, entry)
		fr.bindParams(penv)
		penv.resolve = fvResolve
		bindResults(penv, fn, results)
		for k, c := range fc.Ensures {
			c := c
			t, bound := fr.tolerate(func() string { return fr.evalGoal(c, penv, "ensures") })
			if !bound {
				continue
			}
			label := c.Label
			if label == "" {
				label = fmt.Sprint(k)
			}
			vc.addObl(&Obligation{Name: fmt.Sprintf("%s#post.%s", unit, label), Kind: "post", Props: fc.Props,
				Guard: exitGuard, Goal: t, Src: c.Src, File: c.File, Line: c.Line, Pos: eng.pos(fn.Pos()), Extra: vc.clauseLemmas(c)})
		}
		fr.frameObligations(retRec{guard: exitGuard, st: exit, results: results}, 0, entry)
	}
	// allocation bound obligations (decoders): every make is bounded by contract expression "allocbound"
	return vc, fr
}

// frameObligations: for every heap variable written by the function, objects
// that existed at entry and are not covered by the modifies clause are unchanged.
type frameAllowed struct {
	addr  string
	field int // -1: whole object
	// for `x[:]`: only the absolute indices lo <= k < hi of the backing array (the elements
	// within the length of x) may change
	lo, hi string
}

// frameAllow evaluates the modifies clause at entry: per heap variable the addresses (and fields) that may change.
// ok=false when the clause allows everything.
func (fr *Frame) frameAllow(entry *State) (allow map[string][]frameAllowed, free map[string]bool, ok bool) {
	vc := fr.vc
	fc := fr.fc
	allow = map[string][]frameAllowed{}
	free = map[string]bool{}
	if fc == nil || fc.Kind != "func" {
		return nil, nil, false
	}
	for _, m := range fc.Modifies {
		if m == "all" || m == "heap" {
			return nil, nil, false
		}
	}
	env := fr.newEnv(entry, entry)
	fr.bindParams(env)
	for _, item := range fc.Modifies {
		item = strings.TrimSpace(item)
		if item == "" || item == "nothing" || strings.HasPrefix(item, "ghost ") {
			continue
		}
		if strings.HasPrefix(item, "maps ") {
			parts := strings.Fields(item[5:])
			if len(parts) != 2 {
				panic(bindErr("modifies maps K V"))
			}
			free[vc.mapHeapVar(types.NewMap(vc.eng.resolveType(mustParseType(parts[0]), env.pkg), vc.eng.resolveType(mustParseType(parts[1]), env.pkg)))] = true
			continue
		}
		if strings.HasPrefix(item, "array ") {
			te, err := ParseType(strings.TrimSpace(item[6:]))
			if err != nil {
				panic(bindErr("bad modifies item " + item))
			}
			free[vc.arrHeapVar(vc.eng.resolveType(te, env.pkg))] = true
			continue
		}
		if strings.HasPrefix(item, "type ") {
			t := vc.eng.resolveType(mustParseType(strings.TrimSpace(item[5:])), env.pkg)
			free[vc.heapVar(t)] = true
			continue
		}
		if strings.HasPrefix(item, "global ") {
			free["global:"+strings.TrimSpace(item[7:])] = true
			continue
		}
		elems := strings.HasSuffix(item, "[*]") || strings.HasSuffix(item, "[:]")
		inLen := strings.HasSuffix(item, "[:]")
		it := strings.TrimSuffix(strings.TrimSuffix(item, "[*]"), "[:]")
		deref := strings.HasPrefix(it, "*")
		it = strings.TrimPrefix(it, "*")
		e, err := ParseExpr(it)
		if err != nil {
			panic(bindErr("bad modifies item " + item))
		}
		switch {
		case elems:
			tv := env.eval(e, nil)
			switch u := tv.typ.Underlying().(type) {
			case *types.Slice:
				hv := vc.arrHeapVar(u.Elem())
				fa := frameAllowed{addr: fmt.Sprintf("(sref %s)", tv.term), field: -1}
				if inLen && !vc.isBV() {
					fa.lo = fmt.Sprintf("(soff %s)", tv.term)
					fa.hi = fmt.Sprintf("(+ (soff %s) (slen_ %s))", tv.term, tv.term)
				}
				allow[hv] = append(allow[hv], fa)
			case *types.Map:
				hv := vc.mapHeapVar(u)
				allow[hv] = append(allow[hv], frameAllowed{addr: tv.term, field: -1})
			}
		case deref:
			tv := env.eval(e, nil)
			pt := tv.typ.Underlying().(*types.Pointer)
			hv := vc.heapVar(pt.Elem())
			allow[hv] = append(allow[hv], frameAllowed{addr: tv.term, field: -1})
		default:
			if sel, ok := e.(ESel); ok {
				base := env.eval(sel.X, nil)
				if pt, ok := base.typ.Underlying().(*types.Pointer); ok {
					if stt, ok := pt.Elem().Underlying().(*types.Struct); ok {
						for i := 0; i < stt.NumFields(); i++ {
							if stt.Field(i).Name() == sel.Sel {
								hv := vc.heapVar(pt.Elem())
								allow[hv] = append(allow[hv], frameAllowed{addr: base.term, field: i})
							}
						}
						continue
					}
				}
			}
			tv := env.eval(e, nil)
			if m, ok := tv.typ.Underlying().(*types.Map); ok {
				hv := vc.mapHeapVar(m)
				allow[hv] = append(allow[hv], frameAllowed{addr: tv.term, field: -1})
			}
		}
	}
	return allow, free, true
}

// frameFormula: every object of heap variable hv that existed at entry and is not
// covered by the modifies clause has the same value in state term h1 as at entry.
func (fr *Frame) frameFormula(hv string, allow map[string][]frameAllowed, entry *State, h1 string) string {
	vc := fr.vc
	h0 := entry.get(hv)
	if h0 == h1 {
		return "true"
	}
	next0 := entry.get(vc.nextVar())
	var excl []string
	var fieldItems []frameAllowed
	for _, al := range allow[hv] {
		if al.field < 0 {
			if al.lo != "" {
				excl = append(excl, fmt.Sprintf("(or (not (= a %s)) (< k %s) (>= k %s))", al.addr, al.lo, al.hi))
			} else {
				excl = append(excl, not(eq("a", al.addr)))
			}
		} else {
			fieldItems = append(fieldItems, al)
		}
	}
	body := eq(fmt.Sprintf("(select %s a)", h1), fmt.Sprintf("(select %s a)", h0))
	if strings.HasPrefix(hv, "HA_") {
		// backing arrays: pointwise instead of extensional array equality (friendlier to instantiation)
		idx := "Int"
		if vc.isBV() {
			idx = "(_ BitVec 64)"
		}
		return fmt.Sprintf("(forall ((a Int) (k %s)) (! (=> %s (= (select (select %s a) k) (select (select %s a) k))) :pattern ((select (select %s a) k))))", idx,
			and(append([]string{"(< 0 a)", fmt.Sprintf("(< a %s)", next0)}, excl...)...), h1, h0, h1)
	}
	if len(fieldItems) > 0 {
		var t types.Type
		for tt, name := range vc.heapTypes {
			if name == hv {
				t = tt
			}
		}
		if t != nil {
			if st, ok := t.Underlying().(*types.Struct); ok {
				var conj []string
				for i := 0; i < st.NumFields(); i++ {
					var cond []string
					for _, fi := range fieldItems {
						if fi.field == i {
							cond = append(cond, eq("a", fi.addr))
						}
					}
					same := eq(fmt.Sprintf("(%s (select %s a))", vc.fieldAcc(t, i), h1), fmt.Sprintf("(%s (select %s a))", vc.fieldAcc(t, i), h0))
					if len(cond) > 0 {
						same = or(or(cond...), same)
					}
					conj = append(conj, same)
				}
				body = and(conj...)
			}
		}
	}
	return fmt.Sprintf("(forall ((a Int)) (=> %s %s))", and(append([]string{"(< 0 a)", fmt.Sprintf("(< a %s)", next0)}, excl...)...), body)
}

// frameObligations: for every heap variable written by the function, objects
// that existed at entry and are not covered by the modifies clause are unchanged.
func (fr *Frame) frameObligations(r retRec, ri int, entry *State) {
	vc := fr.vc
	fc := fr.fc
	allow, free, ok := fr.frameAllow(entry)
	if !ok {
		return
	}
	written := map[string]bool{}
	for _, ws := range fr.writes {
		for n := range ws.names {
			if isHeapVar(n) {
				written[n] = true
			}
		}
		if ws.allHeaps {
			return // reported at the havoc'ing call site (path-sensitive)
		}
	}
	var names []string
	for n := range written {
		names = append(names, n)
	}
	sort.Strings(names)
	for _, hv := range names {
		if free[hv] {
			continue
		}
		if strings.HasPrefix(hv, "G_") {
			okg := false
			for f := range free {
				if strings.HasPrefix(f, "global:") && strings.HasSuffix(hv, "."+f[7:]) {
					okg = true
				}
			}
			if okg {
				continue
			}
			vc.addObl(&Obligation{Name: fmt.Sprintf("%s#frame.%s", vc.unit, hv), Kind: "frame", Props: fc.Props, Guard: r.guard,
				Goal: eq(r.st.get(hv), entry.get(hv)), Src: "global " + hv + " is not listed in modifies"})
			continue
		}
		goal := fr.frameFormula(hv, allow, entry, r.st.get(hv))
		if goal == "true" {
			continue
		}
		vc.addObl(&Obligation{Name: fmt.Sprintf("%s#frame.%s", vc.unit, hv), Kind: "frame", Props: fc.Props, Guard: r.guard,
			Goal: goal, Src: "objects existing at entry and not listed in modifies are unchanged in " + hv})
	}
}

// ------------------------------------------------------------ lemmas

func (eng *Engine) VerifyLemma(name string) (res *UnitResult) {
	l := eng.cs.Lemmas[name]
	res = &UnitResult{Unit: "lemma." + name, Kind: "lemma", Props: l.Props, File: l.C.File, Mode: l.Mode}
	defer func() {
		if r := recover(); r != nil {
			switch e := r.(type) {
			case unsupported:
				res.Err, res.ErrKind = "outside subset: "+string(e), "unsupported"
			case bindErr:
				res.Err, res.ErrKind = "lemma does not bind: "+string(e), "bind"
			case evalErr:
				res.Err, res.ErrKind = "lemma does not bind: "+string(e), "bind"
			default:
				panic(r)
			}
		}
	}()
	pkg := eng.pkgByPath(l.Pkg, nil)
	vc := newVC(eng, res.Unit, l.Mode, pkg)
	vc.svSorts = map[string]string{}
	fr := eng.newFrame(vc, nil, nil)
	st := vc.rootState()
	for _, u := range l.Uses {
		if strings.HasPrefix(u, "fn:") {
			vc.assume(eng.fnAxiom(vc, fr, u[3:], pkg, st))
			continue
		}
		ul := eng.cs.Lemmas[u]
		if ul == nil {
			panic(bindErr("unknown lemma " + u))
		}
		env := &Env{vc: vc, names: map[string]TV{}, bound: map[string]TV{}, st: st, old: st, pkg: pkg}
		vc.assume(fr.evalClause(ul.C, env, "lemma "+u))
		if ul.Axiom {
			vc.trust("axiom %s: %s", u, strings.TrimSpace(ul.C.Src))
		}
	}
	env := &Env{vc: vc, fr: fr, names: map[string]TV{}, bound: map[string]TV{}, st: st, old: st, pkg: pkg}
	goal := fr.evalGoal(l.C, env, "lemma")
	vc.addObl(&Obligation{Name: res.Unit, Kind: "lemma", Props: l.Props, Guard: "true", Goal: goal, Src: l.C.Src, File: l.C.File, Line: l.C.Line})
	res.vc = vc
	res.Obls = vc.obls
	res.Notes = vc.notes
	return
}

// contractFiles lists extra contract files under dir.
func contractFiles(dir string) []string {
	m, _ := filepath.Glob(filepath.Join(dir, "*.contracts"))
	sort.Strings(m)
	return m
}

func fileExists(p string) bool {
	_, err := os.Stat(p)
	return err == nil
}

// pureRepoFunc: an in-repo function under a verified (not trusted) contract whose parameters and
// single result are values (no references): it may be used as a mathematical function in lemmas.
func (eng *Engine) pureRepoFunc(name string, pkg *types.Package) (*ssa.Function, *FuncContract) {
	for key, fc := range eng.cs.Funcs {
		if fc.Kind != "func" || fc.Trusted || fc.Name != name {
			continue
		}
		_ = key
		fn := eng.findFunc(fc)
		if fn == nil || fn.Signature.Results().Len() != 1 || len(fc.Modifies) > 0 || len(fc.Effects) > 0 {
			continue
		}
		ok := true
		for i := 0; i < fn.Signature.Params().Len(); i++ {
			switch fn.Signature.Params().At(i).Type().Underlying().(type) {
			case *types.Basic:
			default:
				ok = false
			}
		}
		if ok {
			return fn, fc
		}
	}
	return nil, nil
}

// fnAxiom: forall params. ensures[result := fn(params)] — the contract of a verified, terminating,
// panic-free function as an axiom about the mathematical function it computes.
func (eng *Engine) fnAxiom(vc *VC, fr *Frame, name string, pkg *types.Package, st *State) string {
	fn, fc := eng.pureRepoFunc(name, pkg)
	if fn == nil {
		panic(bindErr("use fn:" + name + ": no verified value-only function of that name"))
	}
	env := &Env{vc: vc, fr: fr, names: map[string]TV{}, bound: map[string]TV{}, st: st, old: st, pkg: fn.Pkg.Pkg}
	var binders, args, sorts []string
	for _, p := range fn.Params {
		vc.nfresh++
		bn := fmt.Sprintf("qv!%s_%d", sanitize(p.Name()), vc.nfresh)
		binders = append(binders, fmt.Sprintf("(%s %s)", bn, vc.sortOf(p.Type())))
		args = append(args, bn)
		sorts = append(sorts, vc.sortOf(p.Type()))
		env.names[p.Name()] = TV{term: bn, typ: p.Type()}
	}
	rt := fn.Signature.Results().At(0).Type()
	fname := "fn_" + sanitize(name)
	vc.decl("f:"+fname, fmt.Sprintf("(declare-fun %s (%s) %s)", fname, strings.Join(sorts, " "), vc.sortOf(rt)))
	app := fmt.Sprintf("(%s %s)", fname, strings.Join(args, " "))
	bindResults(env, fn, []string{app})
	var conj []string
	for _, c := range fc.Requires {
		_ = c
	}
	for _, c := range fc.Ensures {
		conj = append(conj, fr.evalClause(c, env, "ensures of "+name))
	}
	vc.note("contract of %s used as an axiom about the function it computes (needs its termination and panic-freedom obligations, proved in the same check)", name)
	return fmt.Sprintf("(forall (%s) (! %s :pattern (%s)))", strings.Join(binders, " "), and(conj...), app)
}
