package main

// Evaluation of contract expressions to typed SMT terms in a program state.

import (
	"fmt"
	"go/constant"
	"go/token"
	"go/types"
	"math/big"
	"strings"

	"golang.org/x/tools/go/ssa"
)

type TV struct {
	term    string
	typ     types.Type // nil for untyped integer constants
	untyped *big.Int
	isType  types.Type // for type expressions used as conversions
	loc     *Loc       // when the expression denotes an addressable location (for field access through structs)
}

type Env struct {
	vc      *VC
	fr      *Frame
	names   map[string]TV
	st, old *State
	pkg     *types.Package
	bound   map[string]TV
	resolve func(name string, st *State) (TV, bool)
	inPred  bool
	asGoal  bool
	// side collects well-typedness facts about the ground terms a clause reads (0 <= len <= cap,
	// integer fields within their type); evalClause conjoins them to an assumed clause, evalGoal
	// makes them hypotheses of the goal, so they are never asserted outside the clause's guard
	side       *[]string
	inPureFact bool
}

func (e *Env) addFact(key, f string) {
	if e.side == nil || f == "true" {
		return
	}
	for _, x := range *e.side {
		if x == f {
			return
		}
	}
	*e.side = append(*e.side, f)
}

func (fr *Frame) newEnv(st, old *State) *Env {
	env := &Env{vc: fr.vc, fr: fr, names: map[string]TV{}, st: st, old: old, pkg: fr.vc.pkg, bound: map[string]TV{}}
	if fr.fn != nil && len(fr.fn.FreeVars) > 0 {
		env.resolve = fr.fvResolve
	}
	return env
}

// inductionPhi: the unique header phi of a counting loop: an integer that enters the loop as the
// constant 0 and is incremented by exactly 1 on every back edge.
func inductionPhi(li *loopInfo) *ssa.Phi {
	var found *ssa.Phi
	for _, in := range li.header.Instrs {
		phi, ok := in.(*ssa.Phi)
		if !ok {
			break
		}
		if !isIntType(phi.Type()) || phi.Comment == "rangeindex" {
			continue
		}
		zeroIn, incIn, other := 0, 0, 0
		for i, e := range phi.Edges {
			pred := li.header.Preds[i]
			if li.body[pred.Index] {
				bo, ok := e.(*ssa.BinOp)
				one := false
				if ok && bo.Op == token.ADD && bo.X == phi {
					if c, ok := bo.Y.(*ssa.Const); ok && c.Value != nil && c.Int64() == 1 {
						one = true
					}
				}
				if one {
					incIn++
				} else {
					other++
				}
			} else {
				if c, ok := e.(*ssa.Const); ok && c.Value != nil && c.Int64() == 0 {
					zeroIn++
				} else {
					other++
				}
			}
		}
		if other == 0 && zeroIn >= 1 && incIn >= 1 {
			if found != nil {
				return nil
			}
			found = phi
		}
	}
	return found
}

// fvResolve resolves the captured variables of a closure by name.
func (fr *Frame) fvResolve(name string, st *State) (TV, bool) {
	for _, fv := range fr.fn.FreeVars {
		if fv.Name() == name {
			l := fr.locOf(st, "true", fv, false, token.NoPos)
			return TV{term: fr.load(st, l), typ: l.resultType(), loc: l}, true
		}
	}
	return TV{}, false
}

// newEnvAt: environment for assertions at a program point of the top-level function.
func (fr *Frame) newEnvAt(st *State) *Env {
	env := fr.newEnv(st, fr.entry)
	fr.bindParams(env)
	env.resolve = func(name string, st *State) (TV, bool) { return fr.resolveLocal(name, st, nil, nil) }
	return env
}

func (fr *Frame) bindParams(env *Env) {
	for _, p := range fr.fn.Params {
		env.names[p.Name()] = TV{term: fr.val(p), typ: p.Type()}
	}
	for _, fv := range fr.fn.FreeVars {
		fv := fv
		_ = fv
	}
	if fr.fn.Pkg != nil {
		env.pkg = fr.fn.Pkg.Pkg
	}
}

// invEnv: environment for loop invariants at header li in state st; phiEnv overrides phi values (back edges / entry).
func (fr *Frame) invEnv(li *loopInfo, st *State, phiEnv map[*ssa.Phi]string) *Env {
	env := fr.newEnv(st, fr.entry)
	fr.bindParams(env)
	env.resolve = func(name string, st *State) (TV, bool) { return fr.resolveLocal(name, st, li, phiEnv) }
	return env
}

// resolveLocal finds a source-level local variable: a phi of the loop header
// (by its comment), a captured/address-taken local (cell), or the unique SSA
// value the variable is bound to.
func (fr *Frame) resolveLocal(name string, st *State, li *loopInfo, phiEnv map[*ssa.Phi]string) (TV, bool) {
	if li != nil {
		for _, in := range li.header.Instrs {
			phi, ok := in.(*ssa.Phi)
			if !ok {
				break
			}
			if phi.Comment == name {
				if phiEnv != nil {
					if t, ok := phiEnv[phi]; ok {
						return TV{term: t, typ: phi.Type()}, true
					}
				}
				return TV{term: fr.val(phi), typ: phi.Type()}, true
			}
		}
		if name == "rangeindex" {
			// the loop is not a `range` loop (any more): a counting loop `for i := 0; ...; i++` has an
			// induction variable that is one ahead of the range index at the loop head (the index of
			// the last completed iteration) - the clause binds to i - 1
			if phi := inductionPhi(li); phi != nil {
				t := ""
				if phiEnv != nil {
					if tt, ok := phiEnv[phi]; ok {
						t = tt
					}
				}
				if t == "" {
					t = fr.val(phi)
				}
				return TV{term: fr.vc.subInt(t, fr.vc.intLitN(1, phi.Type())), typ: phi.Type()}, true
			}
		}
	}
	// free variables (captured cells)
	for _, fv := range fr.fn.FreeVars {
		if fv.Name() == name {
			l := fr.locOf(st, "true", fv, false, token.NoPos)
			return TV{term: fr.load(st, l), typ: l.resultType(), loc: l}, true
		}
	}
	if a, ok := fr.nameAllocs[name]; ok {
		if l, ok := fr.locs[a]; ok {
			return TV{term: fr.load(st, l), typ: l.resultType(), loc: l}, true
		}
	}
	if vals, ok := fr.nameVals[name]; ok {
		// candidates that are already defined; prefer a unique one
		var cands []ssa.Value
		seen := map[ssa.Value]bool{}
		for _, v := range vals {
			if seen[v] {
				continue
			}
			seen[v] = true
			if _, isConst := v.(*ssa.Const); isConst {
				continue
			}
			if _, def := fr.vals[v]; def {
				cands = append(cands, v)
			} else if _, isParam := v.(*ssa.Parameter); isParam {
				cands = append(cands, v)
			}
		}
		if li != nil {
			// keep only values defined outside the loop body (they dominate the header) — a variable
			// assigned inside the loop would have a phi
			var out []ssa.Value
			for _, v := range cands {
				if in, ok := v.(ssa.Instruction); ok && in.Block() != nil && li.body[in.Block().Index] {
					continue
				}
				out = append(out, v)
			}
			cands = out
		}
		if len(cands) >= 1 {
			// the last definition in dominance order
			best := cands[0]
			for _, c := range cands[1:] {
				bi, ok1 := best.(ssa.Instruction)
				ci, ok2 := c.(ssa.Instruction)
				if ok1 && ok2 && bi.Block() != nil && ci.Block() != nil {
					if bi.Block().Dominates(ci.Block()) {
						best = c
					}
				}
			}
			return TV{term: fr.val(best), typ: best.Type()}, true
		}
	}
	return TV{}, false
}

type evalErr string

func (e *Env) fail(f string, a ...interface{}) {
	panic(evalErr(fmt.Sprintf(f, a...)))
}

func (fr *Frame) evalClause(c Clause, env *Env, what string) (out string) {
	defer func() {
		if r := recover(); r != nil {
			if ee, ok := r.(evalErr); ok {
				panic(bindErr(fmt.Sprintf("%s:%d: %s `%s`: %s", shortFile(c.File), c.Line, what, c.Src, string(ee))))
			}
			panic(r)
		}
	}()
	side := []string{}
	saved := env.side
	env.side = &side
	t := env.evalBool(c.E)
	env.side = saved
	if env.asGoal {
		return implies(and(side...), t)
	}
	return and(append(side, t)...)
}

// evalGoal evaluates a clause that is to be proved: outermost universal
// quantifiers are replaced by fresh constants (so that real code can be
// inlined below them and models name the witnesses).
func (fr *Frame) evalGoal(c Clause, env *Env, what string) (out string) {
	q, ok := c.E.(EQuant)
	if !ok || !q.Forall {
		env.asGoal = true
		defer func() { env.asGoal = false }()
		return fr.evalClause(c, env, what)
	}
	defer func() {
		if r := recover(); r != nil {
			if ee, ok := r.(evalErr); ok {
				panic(bindErr(fmt.Sprintf("%s:%d: %s `%s`: %s", shortFile(c.File), c.Line, what, c.Src, string(ee))))
			}
			panic(r)
		}
	}()
	vc := fr.vc
	var ranges []string
	saved := map[string]*TV{}
	for _, v := range q.Vars {
		t := vc.eng.resolveType(v.T, env.pkg)
		name := vc.freshConst("sk_"+v.Name, vc.sortOf(t))
		if old, ok := env.bound[v.Name]; ok {
			o := old
			saved[v.Name] = &o
		} else {
			saved[v.Name] = nil
		}
		env.bound[v.Name] = TV{term: name, typ: t}
		ranges = append(ranges, vc.rangeFact(name, t))
		vc.wantValue(name)
	}
	body := fr.evalGoal(Clause{Label: c.Label, Src: c.Src, E: q.Body, File: c.File, Line: c.Line}, env, what)
	for k, v := range saved {
		if v == nil {
			delete(env.bound, k)
		} else {
			env.bound[k] = *v
		}
	}
	return implies(and(ranges...), body)
}

func (fr *Frame) evalClauseTV(c Clause, env *Env) (out TV) {
	defer func() {
		if r := recover(); r != nil {
			if ee, ok := r.(evalErr); ok {
				panic(bindErr(fmt.Sprintf("%s:%d: `%s`: %s", shortFile(c.File), c.Line, c.Src, string(ee))))
			}
			panic(r)
		}
	}()
	tv := env.eval(c.E, nil)
	if tv.typ == nil {
		tv = env.coerce(tv, types.Typ[types.Int])
	}
	return tv
}

// tolerate evaluates one clause that is to be proved (or one loop invariant); when the clause does
// not bind to the code (it names a local, a call or a loop that a change removed) the clause is
// recorded as unbound - reported UNDECIDED - and skipped, so that the other clauses of the unit
// are still decided.
func (fr *Frame) tolerate(f func() string) (out string, ok bool) {
	defer func() {
		if r := recover(); r != nil {
			var msg string
			switch e := r.(type) {
			case bindErr:
				msg = string(e)
			case evalErr:
				msg = string(e)
			default:
				panic(r)
			}
			vc := fr.vc
			dup := false
			for _, u := range vc.unbound {
				if u == msg {
					dup = true
				}
			}
			if !dup {
				vc.unbound = append(vc.unbound, msg)
			}
			out, ok = "", false
		}
	}()
	return f(), true
}

// bindErr: the contract does not bind to the code (renamed variable etc.)
type bindErr string

func (e *Env) evalBool(x Expr) string {
	tv := e.eval(x, types.Typ[types.Bool])
	if tv.typ == nil || !isBoolType(tv.typ) {
		e.fail("expression %s is not boolean", x)
	}
	return tv.term
}

func isBoolType(t types.Type) bool {
	b, ok := t.Underlying().(*types.Basic)
	return ok && b.Info()&types.IsBoolean != 0
}

func isStringType(t types.Type) bool {
	b, ok := t.Underlying().(*types.Basic)
	return ok && b.Info()&types.IsString != 0
}

func (e *Env) coerce(tv TV, want types.Type) TV {
	if tv.typ != nil {
		return tv
	}
	if tv.untyped == nil {
		e.fail("cannot determine the type of an expression")
	}
	if want == nil {
		want = e.vc.mathint
	}
	if _, _, ok := intInfo(want); !ok && !e.vc.isMathInt(want) {
		if b, isb := want.Underlying().(*types.Basic); isb && b.Info()&types.IsFloat != 0 {
			return TV{term: tv.untyped.String() + ".0", typ: want}
		}
		want = e.vc.mathint
	}
	return TV{term: e.vc.intLit(tv.untyped, want), typ: want}
}

func (e *Env) lookupName(name string) (TV, bool) {
	if tv, ok := e.bound[name]; ok {
		return tv, true
	}
	if tv, ok := e.names[name]; ok {
		return tv, true
	}
	if e.resolve != nil {
		if tv, ok := e.resolve(name, e.st); ok {
			return tv, true
		}
	}
	// ghost variables
	if g, ok := e.vc.eng.cs.Ghosts[name]; ok {
		sv := e.vc.ghostVar(name)
		t := e.vc.eng.resolveType(g.T, e.pkg)
		return TV{term: e.st.get(sv), typ: t}, true
	}
	// package-level constants of the current package
	if e.pkg != nil {
		if obj := e.pkg.Scope().Lookup(name); obj != nil {
			if c, ok := obj.(*types.Const); ok {
				return e.constTV(c), true
			}
		}
	}
	if obj := types.Universe.Lookup(name); obj != nil {
		if tn, ok := obj.(*types.TypeName); ok {
			return TV{isType: tn.Type()}, true
		}
	}
	if e.pkg != nil {
		if obj := e.pkg.Scope().Lookup(name); obj != nil {
			if tn, ok := obj.(*types.TypeName); ok {
				return TV{isType: tn.Type()}, true
			}
		}
	}
	if name == "mathint" {
		return TV{isType: e.vc.mathint}, true
	}
	return TV{}, false
}

func (vc *VC) ghostVar(name string) string {
	g := vc.eng.cs.Ghosts[name]
	if g == nil {
		panic(unsupported("undeclared ghost " + name))
	}
	t := vc.eng.resolveType(g.T, vc.pkg)
	return vc.simpleVar("GH_"+name, vc.sortOf(t))
}

func (e *Env) constTV(c *types.Const) TV {
	switch c.Val().Kind() {
	case constant.Int:
		bi, _ := new(big.Int).SetString(c.Val().ExactString(), 10)
		if b, ok := c.Type().Underlying().(*types.Basic); ok && b.Info()&types.IsUntyped != 0 {
			return TV{untyped: bi}
		}
		return TV{term: e.vc.intLit(bi, c.Type()), typ: c.Type()}
	case constant.String:
		return TV{term: e.vc.strLit(constant.StringVal(c.Val())), typ: types.Typ[types.String]}
	case constant.Bool:
		if constant.BoolVal(c.Val()) {
			return TV{term: "true", typ: types.Typ[types.Bool]}
		}
		return TV{term: "false", typ: types.Typ[types.Bool]}
	}
	e.fail("constant %s of unsupported kind", c.Name())
	return TV{}
}

func parseNum(s string) (*big.Int, bool) {
	v := new(big.Int)
	if len(s) > 1 && s[0] == '0' && s[1] != 'x' && s[1] != 'X' && s[1] != 'b' && s[1] != 'o' {
		_, ok := v.SetString(s[1:], 8)
		return v, ok
	}
	_, ok := v.SetString(s, 0)
	return v, ok
}

func (e *Env) eval(x Expr, hint types.Type) TV {
	vc := e.vc
	switch n := x.(type) {
	case ENum:
		v, ok := parseNum(n.Text)
		if !ok {
			e.fail("bad number %s", n.Text)
		}
		return TV{untyped: v}
	case EBool:
		if n.Val {
			return TV{term: "true", typ: types.Typ[types.Bool]}
		}
		return TV{term: "false", typ: types.Typ[types.Bool]}
	case EStr:
		return TV{term: vc.strLit(n.Val), typ: types.Typ[types.String]}
	case EChar:
		return TV{untyped: big.NewInt(int64(n.Val))}
	case ENil:
		if hint != nil {
			return TV{term: vc.zero(hint), typ: hint}
		}
		return TV{term: "nil?", typ: nil, untyped: nil, isType: nil}
	case EIdent:
		tv, ok := e.lookupName(n.Name)
		if !ok {
			e.fail("unknown name %q", n.Name)
		}
		return tv
	case EUnary:
		switch n.Op {
		case "!":
			return TV{term: not(e.evalBool(n.X)), typ: types.Typ[types.Bool]}
		case "-":
			v := e.eval(n.X, hint)
			if v.typ == nil {
				return TV{untyped: new(big.Int).Neg(v.untyped)}
			}
			return TV{term: vc.unop(token.SUB, v.term, v.typ), typ: v.typ}
		case "^":
			v := e.eval(n.X, hint)
			v = e.coerce(v, hint)
			return TV{term: vc.unop(token.XOR, v.term, v.typ), typ: v.typ}
		case "*":
			v := e.eval(n.X, nil)
			if v.typ == nil {
				e.fail("dereference of untyped value")
			}
			pt, ok := v.typ.Underlying().(*types.Pointer)
			if !ok {
				e.fail("dereference of non-pointer %s", v.typ)
			}
			return TV{term: fmt.Sprintf("(select %s %s)", e.st.get(vc.heapVar(pt.Elem())), v.term), typ: pt.Elem()}
		}
	case EBinary:
		return e.evalBinary(n, hint)
	case ESel:
		return e.evalSel(n)
	case EIndex:
		return e.evalIndex(n)
	case ESlice:
		return e.evalSlice(n)
	case ECall:
		return e.evalCall(n, hint)
	case EQuant:
		return e.evalQuant(n)
	case EType:
		return TV{isType: vc.eng.resolveType(n.T, e.pkg)}
	}
	e.fail("cannot evaluate %s", x)
	return TV{}
}

var binTok = map[string]token.Token{"+": token.ADD, "-": token.SUB, "*": token.MUL, "/": token.QUO, "%": token.REM,
	"&": token.AND, "|": token.OR, "^": token.XOR, "&^": token.AND_NOT, "<<": token.SHL, ">>": token.SHR,
	"==": token.EQL, "!=": token.NEQ, "<": token.LSS, "<=": token.LEQ, ">": token.GTR, ">=": token.GEQ}

func (e *Env) evalBinary(n EBinary, hint types.Type) TV {
	vc := e.vc
	bt := types.Typ[types.Bool]
	switch n.Op {
	case "&&":
		return TV{term: and(e.evalBool(n.X), e.evalBool(n.Y)), typ: bt}
	case "||":
		return TV{term: or(e.evalBool(n.X), e.evalBool(n.Y)), typ: bt}
	case "==>":
		return TV{term: implies(e.evalBool(n.X), e.evalBool(n.Y)), typ: bt}
	case "<==>":
		return TV{term: eq(e.evalBool(n.X), e.evalBool(n.Y)), typ: bt}
	}
	op := binTok[n.Op]
	isCmp := op == token.EQL || op == token.NEQ || op == token.LSS || op == token.LEQ || op == token.GTR || op == token.GEQ
	opHint := hint
	if isCmp {
		opHint = nil
	}
	// nil comparisons
	if _, ok := n.Y.(ENil); ok && isCmp {
		l := e.eval(n.X, nil)
		if l.typ == nil {
			e.fail("nil compared with untyped")
		}
		t := eq(l.term, vc.zero(l.typ))
		if _, isIface := l.typ.Underlying().(*types.Interface); isIface {
			t = eq(fmt.Sprintf("(ityp %s)", l.term), "0")
		}
		if sl, isSl := l.typ.Underlying().(*types.Slice); isSl {
			_ = sl
			t = eq(fmt.Sprintf("(sref %s)", l.term), "0")
		}
		if op == token.NEQ {
			t = not(t)
		}
		return TV{term: t, typ: bt}
	}
	l := e.eval(n.X, opHint)
	var r TV
	if op == token.SHL || op == token.SHR {
		r = e.eval(n.Y, nil)
		if l.typ == nil && r.typ == nil {
			v := new(big.Int)
			if op == token.SHL {
				v.Lsh(l.untyped, uint(r.untyped.Int64()))
			} else {
				v.Rsh(l.untyped, uint(r.untyped.Int64()))
			}
			return TV{untyped: v}
		}
		l = e.coerce(l, hint)
		if r.typ == nil {
			r = e.coerce(r, types.Typ[types.Uint])
		}
		t, _ := vc.binop(op, l.term, r.term, l.typ, r.typ)
		return TV{term: t, typ: l.typ}
	}
	if l.typ != nil {
		r = e.eval(n.Y, l.typ)
	} else {
		r = e.eval(n.Y, opHint)
	}
	if l.typ == nil && r.typ == nil && l.untyped != nil && r.untyped != nil {
		// constant folding
		a, b := l.untyped, r.untyped
		v := new(big.Int)
		switch op {
		case token.ADD:
			v.Add(a, b)
		case token.SUB:
			v.Sub(a, b)
		case token.MUL:
			v.Mul(a, b)
		case token.QUO:
			v.Quo(a, b)
		case token.REM:
			v.Rem(a, b)
		case token.AND:
			v.And(a, b)
		case token.OR:
			v.Or(a, b)
		case token.XOR:
			v.Xor(a, b)
		case token.AND_NOT:
			v.AndNot(a, b)
		default:
			c := a.Cmp(b)
			var res bool
			switch op {
			case token.EQL:
				res = c == 0
			case token.NEQ:
				res = c != 0
			case token.LSS:
				res = c < 0
			case token.LEQ:
				res = c <= 0
			case token.GTR:
				res = c > 0
			case token.GEQ:
				res = c >= 0
			}
			if res {
				return TV{term: "true", typ: bt}
			}
			return TV{term: "false", typ: bt}
		}
		return TV{untyped: v}
	}
	if l.typ == nil {
		l = e.coerce(l, r.typ)
	}
	if r.typ == nil {
		r = e.coerce(r, l.typ)
	}
	// mixing mathint with machine ints: lift the machine int
	if vc.isMathInt(l.typ) != vc.isMathInt(r.typ) {
		if vc.isMathInt(l.typ) {
			r = TV{term: vc.convertInt(r.term, r.typ, vc.mathint), typ: vc.mathint}
		} else {
			l = TV{term: vc.convertInt(l.term, l.typ, vc.mathint), typ: vc.mathint}
		}
	}
	if vc.sortOf(l.typ) != vc.sortOf(r.typ) {
		e.fail("operands of %s have different sorts: %s (%s) vs %s (%s)", n.Op, n.X, l.typ, n.Y, r.typ)
	}
	// typed constants (os.ModeSetuid | os.ModeSetgid): bitwise operators on two non-negative literals are
	// folded, as the compiler folds them in the code (in integer mode they would be uninterpreted)
	if op == token.AND || op == token.OR || op == token.XOR || op == token.AND_NOT {
		a, okA := new(big.Int).SetString(l.term, 10)
		b, okB := new(big.Int).SetString(r.term, 10)
		if okA && okB && a.Sign() >= 0 && b.Sign() >= 0 {
			v := new(big.Int)
			switch op {
			case token.AND:
				v.And(a, b)
			case token.OR:
				v.Or(a, b)
			case token.XOR:
				v.Xor(a, b)
			case token.AND_NOT:
				v.AndNot(a, b)
			}
			return TV{term: v.String(), typ: l.typ}
		}
	}
	t, _ := vc.binop(op, l.term, r.term, l.typ, r.typ)
	if isCmp {
		return TV{term: t, typ: bt}
	}
	return TV{term: t, typ: l.typ}
}

func (e *Env) evalSel(n ESel) TV {
	vc := e.vc
	// package-qualified constant or type: os.ModeType, syscall.S_IFCHR
	if id, ok := n.X.(EIdent); ok {
		if _, isVar := e.lookupName(id.Name); !isVar {
			if p := vc.eng.findPackage(id.Name, e.pkg); p != nil {
				obj := p.Scope().Lookup(n.Sel)
				switch o := obj.(type) {
				case *types.Const:
					return e.constTV(o)
				case *types.TypeName:
					return TV{isType: o.Type()}
				case *types.Var:
					// package-level variable, e.g. io.EOF: its value is the global's content
					name := "G_" + sanitize(shortPkg(p.Path())+"."+o.Name())
					vc.simpleVar(name, vc.sortOf(o.Type()))
					if isErrorSentinel(p.Path(), o.Name(), o.Type()) {
						e.addFact("sentinel:"+name, fmt.Sprintf("(not (= (ityp %s) 0))", e.st.get(name)))
					}
					return TV{term: e.st.get(name), typ: o.Type()}
				}
				e.fail("%s.%s is not a constant, type or variable", id.Name, n.Sel)
			}
		}
	}
	base := e.eval(n.X, nil)
	if base.typ == nil {
		e.fail("selector on untyped expression %s", n.X)
	}
	t := base.typ
	term := base.term
	if p, ok := t.Underlying().(*types.Pointer); ok {
		// load the object
		hv := vc.heapVar(p.Elem())
		term = fmt.Sprintf("(select %s %s)", e.st.get(hv), term)
		t = p.Elem()
	}
	st, ok := t.Underlying().(*types.Struct)
	if !ok {
		e.fail("%s is not a struct (type %s)", n.X, t)
	}
	// direct or promoted (embedded) fields, one level of embedding through pointers
	for i := 0; i < st.NumFields(); i++ {
		if st.Field(i).Name() == n.Sel {
			ft := fmt.Sprintf("(%s %s)", vc.fieldAcc(t, i), term)
			// a field of integer type holds a value of that type
			if isIntType(st.Field(i).Type()) && !strings.Contains(ft, "qv!") && !strings.Contains(ft, "pa!") {
				e.addFact("", vc.rangeFact(ft, st.Field(i).Type()))
			}
			return TV{term: ft, typ: st.Field(i).Type()}
		}
	}
	for i := 0; i < st.NumFields(); i++ {
		f := st.Field(i)
		if !f.Embedded() {
			continue
		}
		inner := TV{term: fmt.Sprintf("(%s %s)", vc.fieldAcc(t, i), term), typ: f.Type()}
		sub := &Env{}
		*sub = *e
		sub.bound = map[string]TV{}
		for k, v := range e.bound {
			sub.bound[k] = v
		}
		sub.bound["#emb"] = inner
		func() {
			defer func() { recover() }()
			r := sub.evalSel(ESel{EIdent{"#emb"}, n.Sel})
			panic(foundTV(r))
		}()
	}
	e.fail("no field %s in %s", n.Sel, t)
	return TV{}
}

type foundTV TV

func (e *Env) evalIndex(n EIndex) TV {
	vc := e.vc
	base := e.eval(n.X, nil)
	if base.typ == nil {
		e.fail("index on untyped")
	}
	switch u := base.typ.Underlying().(type) {
	case *types.Basic:
		i := e.coerce(e.eval(n.I, types.Typ[types.Int]), types.Typ[types.Int])
		it := vc.convertIdx(i)
		return TV{term: fmt.Sprintf("(sat %s %s)", base.term, it), typ: types.Typ[types.Uint8]}
	case *types.Slice:
		i := e.coerce(e.eval(n.I, types.Typ[types.Int]), types.Typ[types.Int])
		it := vc.convertIdx(i)
		hv := vc.arrHeapVar(u.Elem())
		return TV{term: fmt.Sprintf("(select (select %s (sref %s)) %s)", e.st.get(hv), base.term, vc.absIdx(base.term, it)), typ: u.Elem()}
	case *types.Array:
		i := e.coerce(e.eval(n.I, types.Typ[types.Int]), types.Typ[types.Int])
		return TV{term: fmt.Sprintf("(select %s %s)", base.term, vc.convertIdx(i)), typ: u.Elem()}
	case *types.Map:
		k := e.coerce(e.eval(n.I, u.Key()), u.Key())
		hv := vc.mapHeapVar(u)
		ms := vc.mapSort(u)
		obj := fmt.Sprintf("(select %s %s)", e.st.get(hv), base.term)
		has := and(not(eq(base.term, "0")), fmt.Sprintf("(select (%s_keys %s) %s)", ms, obj, k.term))
		return TV{term: ite(has, fmt.Sprintf("(select (%s_vals %s) %s)", ms, obj, k.term), vc.zero(u.Elem())), typ: u.Elem()}
	}
	e.fail("cannot index %s of type %s", n.X, base.typ)
	return TV{}
}

func (vc *VC) convertIdx(i TV) string {
	if vc.isMathInt(i.typ) {
		return vc.convertInt(i.term, i.typ, types.Typ[types.Int])
	}
	return vc.convertInt(i.term, i.typ, types.Typ[types.Int])
}

func (e *Env) evalSlice(n ESlice) TV {
	// only used as argument of spec functions over string prefixes: s[:k] / s[k:] are not values here
	e.fail("slice expressions are not supported in contracts (use index arithmetic): %s", n)
	return TV{}
}

func (e *Env) evalQuant(n EQuant) TV {
	vc := e.vc
	var binders []string
	var ranges []string
	saved := map[string]*TV{}
	for _, v := range n.Vars {
		t := vc.eng.resolveType(v.T, e.pkg)
		name := "q_" + sanitize(v.Name) + "?"
		vc.nfresh++
		name = fmt.Sprintf("qv!%s_%d", sanitize(v.Name), vc.nfresh)
		binders = append(binders, fmt.Sprintf("(%s %s)", name, vc.sortOf(t)))
		if old, ok := e.bound[v.Name]; ok {
			o := old
			saved[v.Name] = &o
		} else {
			saved[v.Name] = nil
		}
		e.bound[v.Name] = TV{term: name, typ: t}
		if rf := vc.rangeFact(name, t); rf != "true" {
			ranges = append(ranges, rf)
		}
	}
	body := e.evalBool(n.Body)
	var pats []string
	for _, t := range n.Trig {
		pats = append(pats, e.eval(t, nil).term)
	}
	for k, v := range saved {
		if v == nil {
			delete(e.bound, k)
		} else {
			e.bound[k] = *v
		}
	}
	q := "exists"
	if n.Forall {
		q = "forall"
		if len(ranges) > 0 {
			body = implies(and(ranges...), body)
		}
	} else if len(ranges) > 0 {
		body = and(append(ranges, body)...)
	}
	if len(pats) > 0 {
		body = fmt.Sprintf("(! %s :pattern (%s))", body, strings.Join(pats, " "))
	}
	return TV{term: fmt.Sprintf("(%s (%s) %s)", q, strings.Join(binders, " "), body), typ: types.Typ[types.Bool]}
}

func (e *Env) evalCall(n ECall, hint types.Type) TV {
	vc := e.vc
	bt := types.Typ[types.Bool]
	// conversions
	if ty, ok := n.Fun.(EType); ok {
		return e.convertTo(vc.eng.resolveType(ty.T, e.pkg), n.Args)
	}
	if sel, ok := n.Fun.(ESel); ok {
		// pkg.Type(x) conversion or pure method call x.M()
		if id, ok := sel.X.(EIdent); ok {
			if _, isVar := e.lookupName(id.Name); !isVar {
				if p := vc.eng.findPackage(id.Name, e.pkg); p != nil {
					if tn, ok := p.Scope().Lookup(sel.Sel).(*types.TypeName); ok {
						return e.convertTo(tn.Type(), n.Args)
					}
					// package-level pure function with an extern contract: os.IsNotExist(err); f#1(x) selects the second result
					fname, ridx := sel.Sel, 0
					if k := strings.Index(fname, "#"); k >= 0 {
						fmt.Sscan(fname[k+1:], &ridx)
						fname = fname[:k]
					}
					return e.pureCallIdx(shortPkg(p.Path())+"."+fname, n.Args, p.Scope().Lookup(fname), ridx)
				}
			}
		}
		recv := e.eval(sel.X, nil)
		return e.methodCall(recv, sel.Sel, n.Args)
	}
	id, ok := n.Fun.(EIdent)
	if !ok {
		e.fail("cannot call %s", n.Fun)
	}
	switch id.Name {
	case "old":
		sub := *e
		sub.st = e.old
		// loop-local names do not exist at entry: keep resolver but evaluate against old state
		return sub.eval(n.Args[0], hint)
	case "len":
		a := e.eval(n.Args[0], nil)
		it := types.Typ[types.Int]
		switch u := a.typ.Underlying().(type) {
		case *types.Basic:
			return TV{term: vc.strLen(a.term), typ: it}
		case *types.Slice:
			// every slice value of a well-typed state satisfies 0 <= len <= cap
			if !vc.isBV() && !strings.Contains(a.term, "qv!") && !strings.Contains(a.term, "pa!") {
				e.addFact("", fmt.Sprintf("(and (<= 0 (slen_ %s)) (<= (slen_ %s) (scap %s)) (<= (scap %s) 281474976710656))", a.term, a.term, a.term, a.term))
			}
			return TV{term: fmt.Sprintf("(slen_ %s)", a.term), typ: it}
		case *types.Array:
			return TV{term: vc.intLitN(u.Len(), it), typ: it}
		case *types.Map:
			ms := vc.mapSort(u)
			sz := fmt.Sprintf("(%s_size (select %s %s))", ms, e.st.get(vc.mapHeapVar(u)), a.term)
			return TV{term: ite(eq(a.term, "0"), vc.intLitN(0, it), sz), typ: it}
		}
		e.fail("len of %s", a.typ)
	case "cap":
		a := e.eval(n.Args[0], nil)
		return TV{term: fmt.Sprintf("(scap %s)", a.term), typ: types.Typ[types.Int]}
	case "ref":
		// ref(s): identity of the backing array of a slice / address of a pointer, as mathint
		a := e.eval(n.Args[0], nil)
		if _, ok := a.typ.Underlying().(*types.Slice); ok {
			return TV{term: fmt.Sprintf("(sref %s)", a.term), typ: vc.mathint}
		}
		return TV{term: a.term, typ: vc.mathint}
	case "rawat":
		// rawat(s, k): the element at absolute index k of the backing array of slice s
		a := e.eval(n.Args[0], nil)
		sl, ok := a.typ.Underlying().(*types.Slice)
		if !ok {
			e.fail("rawat on non-slice")
		}
		i := e.coerce(e.eval(n.Args[1], types.Typ[types.Int]), types.Typ[types.Int])
		return TV{term: fmt.Sprintf("(select (select %s (sref %s)) %s)", e.st.get(vc.arrHeapVar(sl.Elem())), a.term, vc.convertIdx(i)), typ: sl.Elem()}
	case "off":
		a := e.eval(n.Args[0], nil)
		return TV{term: fmt.Sprintf("(soff %s)", a.term), typ: types.Typ[types.Int]}
	case "fresh":
		// fresh(r): the reference was allocated during this call
		a := e.eval(n.Args[0], nil)
		t := a.term
		if _, ok := a.typ.Underlying().(*types.Slice); ok {
			t = fmt.Sprintf("(sref %s)", a.term)
		}
		return TV{term: fmt.Sprintf("(>= %s %s)", t, e.old.get(vc.nextVar())), typ: bt}
	case "allocated":
		// allocated(r): the reference denotes an object that exists in the current state
		// (needed for references stored in arrays: a later allocation cannot alias them)
		a := e.eval(n.Args[0], nil)
		t := a.term
		if _, ok := a.typ.Underlying().(*types.Slice); ok {
			t = fmt.Sprintf("(sref %s)", a.term)
		}
		return TV{term: fmt.Sprintf("(and (<= 0 %s) (< %s %s))", t, t, e.st.get(vc.nextVar())), typ: bt}
	case "haskey":
		m := e.eval(n.Args[0], nil)
		mt, ok := m.typ.Underlying().(*types.Map)
		if !ok {
			e.fail("haskey on non-map")
		}
		k := e.coerce(e.eval(n.Args[1], mt.Key()), mt.Key())
		ms := vc.mapSort(mt)
		obj := fmt.Sprintf("(select %s %s)", e.st.get(vc.mapHeapVar(mt)), m.term)
		return TV{term: and(not(eq(m.term, "0")), fmt.Sprintf("(select (%s_keys %s) %s)", ms, obj, k.term)), typ: bt}
	case "visited":
		// visited(n, k): key k was already produced by the n-th map range statement of the function
		lit, ok := n.Args[0].(ENum)
		ord := 0
		if !ok || e.fr == nil {
			e.fail("visited(n, k): n must be a literal ordinal")
		}
		fmt.Sscan(lit.Text, &ord)
		name, kt := e.fr.top().visitedByOrdinal(ord)
		if name == "" {
			e.fail("visited(%d, ...): no such map range statement", ord)
		}
		k := e.coerce(e.eval(n.Args[1], kt), kt)
		return TV{term: fmt.Sprintf("(select %s %s)", e.st.get(name), k.term), typ: bt}
	case "mapsum", "maptotal":
		// mapsum(m, n, f) / maptotal(m, f): see mapSumFuncs
		mv := e.eval(n.Args[0], nil)
		mt, ok := mv.typ.Underlying().(*types.Map)
		if !ok {
			e.fail("%s on non-map", id.Name)
		}
		fid, ok := n.Args[len(n.Args)-1].(EIdent)
		if !ok {
			e.fail("%s: last argument must name a spec function", id.Name)
		}
		pd := vc.eng.cs.Preds[fid.Name]
		if pd == nil || len(pd.Params) != 2 {
			e.fail("%s: %s is not a spec function of (key, value)", id.Name, fid.Name)
		}
		psum, ptot := vc.mapSumFuncs(mt, pd)
		obj := fmt.Sprintf("(select %s %s)", e.st.get(vc.mapHeapVar(mt)), mv.term)
		if id.Name == "maptotal" {
			return TV{term: fmt.Sprintf("(%s %s)", ptot, obj), typ: vc.eng.mathint}
		}
		lit, ok := n.Args[1].(ENum)
		ord := 0
		if !ok || e.fr == nil {
			e.fail("mapsum(m, n, f): n must be a literal ordinal")
		}
		fmt.Sscan(lit.Text, &ord)
		name, _ := e.fr.top().visitedByOrdinal(ord)
		if name == "" {
			e.fail("mapsum: no map range statement %d", ord)
		}
		return TV{term: fmt.Sprintf("(%s %s %s)", psum, obj, e.st.get(name)), typ: vc.eng.mathint}
	case "mapobj":
		// the whole map value (keys+vals+size) for equality/frame statements
		m := e.eval(n.Args[0], nil)
		mt := m.typ.Underlying().(*types.Map)
		return TV{term: fmt.Sprintf("(select %s %s)", e.st.get(vc.mapHeapVar(mt)), m.term), typ: nil, isType: nil, untyped: nil, loc: &Loc{svar: vc.mapSort(mt)}}
	case "ite":
		c := e.evalBool(n.Args[0])
		a := e.eval(n.Args[1], hint)
		b := e.eval(n.Args[2], hint)
		if a.typ == nil && b.typ != nil {
			a = e.coerce(a, b.typ)
		}
		if b.typ == nil && a.typ != nil {
			b = e.coerce(b, a.typ)
		}
		if a.typ == nil {
			a = e.coerce(a, hint)
			b = e.coerce(b, hint)
		}
		return TV{term: ite(c, a.term, b.term), typ: a.typ}
	case "cnt", "when", "arg":
		en, ok := n.Args[0].(EIdent)
		if !ok {
			e.fail("%s(EFFECT...)", id.Name)
		}
		if vc.eng.cs.Effects[en.Name] == nil {
			e.fail("undeclared effect %s", en.Name)
		}
		cnt, tm, avs := vc.effectVars(en.Name)
		switch id.Name {
		case "cnt":
			return TV{term: e.st.get(cnt), typ: vc.mathint}
		case "when":
			return TV{term: e.st.get(tm), typ: vc.mathint}
		default:
			k, ok := n.Args[1].(ENum)
			if !ok {
				e.fail("arg(EFFECT, k)")
			}
			var ki int
			fmt.Sscan(k.Text, &ki)
			if ki >= len(avs) {
				e.fail("effect %s has %d arguments", en.Name, len(avs))
			}
			t := vc.eng.resolveType(vc.eng.cs.Effects[en.Name].Params[ki].T, e.pkg)
			return TV{term: e.st.get(avs[ki]), typ: t}
		}
	case "clk":
		return TV{term: e.st.get(vc.clkVar()), typ: vc.mathint}
	case "typeis":
		// typeis(x, T): dynamic type of interface value x is T
		a := e.eval(n.Args[0], nil)
		tt := e.eval(n.Args[1], nil)
		if tt.isType == nil {
			e.fail("typeis(x, T)")
		}
		return TV{term: eq(fmt.Sprintf("(ityp %s)", a.term), fmt.Sprint(vc.typeID(tt.isType))), typ: bt}
	case "ptr":
		// ptr(x, T): reinterpret the reference x (mathint) as *T
		a := e.eval(n.Args[0], nil)
		tt := e.eval(n.Args[1], nil)
		if tt.isType == nil {
			e.fail("ptr(x, T)")
		}
		return TV{term: a.term, typ: types.NewPointer(tt.isType)}
	case "asptr":
		// asptr(x, T): the value of interface x asserted to *T
		a := e.eval(n.Args[0], nil)
		tt := e.eval(n.Args[1], nil)
		if tt.isType == nil {
			e.fail("asptr(x, T)")
		}
		return TV{term: fmt.Sprintf("(ival %s)", a.term), typ: types.NewPointer(tt.isType)}
	case "isptr":
		// isptr(x, T): dynamic type of interface x is *T
		a := e.eval(n.Args[0], nil)
		tt := e.eval(n.Args[1], nil)
		if tt.isType == nil {
			e.fail("isptr(x, T)")
		}
		return TV{term: eq(fmt.Sprintf("(ityp %s)", a.term), fmt.Sprint(vc.typeID(types.NewPointer(tt.isType)))), typ: bt}
	case "isdyn":
		// isdyn(x, T): dynamic type of interface x is exactly T (a non-pointer type, e.g. syscall.Errno)
		a := e.eval(n.Args[0], nil)
		tt := e.eval(n.Args[1], nil)
		if tt.isType == nil {
			e.fail("isdyn(x, T)")
		}
		return TV{term: eq(fmt.Sprintf("(ityp %s)", a.term), fmt.Sprint(vc.typeID(tt.isType))), typ: bt}
	case "dyn":
		// dyn(x, T): the value of interface x asserted to pointer type T
		a := e.eval(n.Args[0], nil)
		tt := e.eval(n.Args[1], nil)
		if tt.isType == nil {
			e.fail("dyn(x, T)")
		}
		return TV{term: fmt.Sprintf("(ival %s)", a.term), typ: tt.isType}
	}
	// conversion through a type name
	if tv, ok := e.lookupName(id.Name); ok && tv.isType != nil {
		return e.convertTo(tv.isType, n.Args)
	}
	// spec predicate
	if pd, ok := vc.eng.cs.Preds[id.Name]; ok {
		return e.predCall(pd, n.Args)
	}
	// verified in-repo function used as a mathematical function (lemmas: `use fn:NAME`)
	if fn, fc := vc.eng.pureRepoFunc(id.Name, e.pkg); fn != nil {
		_ = fc
		sig := fn.Signature
		fname := "fn_" + sanitize(id.Name)
		var sorts, ts []string
		for i, a := range n.Args {
			pt := sig.Params().At(i).Type()
			v := e.coerce(e.eval(a, pt), pt)
			sorts = append(sorts, vc.sortOf(pt))
			ts = append(ts, v.term)
		}
		rt := sig.Results().At(0).Type()
		vc.decl("f:"+fname, fmt.Sprintf("(declare-fun %s (%s) %s)", fname, strings.Join(sorts, " "), vc.sortOf(rt)))
		return TV{term: fmt.Sprintf("(%s %s)", fname, strings.Join(ts, " ")), typ: rt}
	}
	e.fail("unknown function %s", id.Name)
	return TV{}
}

func (e *Env) convertTo(t types.Type, args []Expr) TV {
	vc := e.vc
	if len(args) != 1 {
		e.fail("conversion takes one argument")
	}
	a := e.eval(args[0], t)
	if a.typ == nil {
		return e.coerce(a, t)
	}
	if isIntType(a.typ) || vc.isMathInt(a.typ) {
		if isIntType(t) || vc.isMathInt(t) {
			return TV{term: vc.convertInt(a.term, a.typ, t), typ: t}
		}
	}
	if vc.sortOf(a.typ) == vc.sortOf(t) {
		return TV{term: a.term, typ: t}
	}
	e.fail("unsupported conversion %s -> %s", a.typ, t)
	return TV{}
}

// predCall applies a spec predicate (define-fun / define-fun-rec emitted on demand).
func (e *Env) predCall(pd *PredDecl, args []Expr) TV {
	vc := e.vc
	rt := vc.eng.resolveType(pd.Result, vc.eng.pkgByPath(pd.Pkg, e.pkg))
	// predicates over references read the heap: expand them in the caller's state
	if !pd.Rec && !pd.Uninterp {
		stateDep := false
		for _, p := range pd.Params {
			switch vc.eng.resolveType(p.T, vc.eng.pkgByPath(pd.Pkg, e.pkg)).Underlying().(type) {
			case *types.Pointer, *types.Slice, *types.Map, *types.Interface:
				stateDep = true
			}
		}
		if stateDep {
			if len(args) != len(pd.Params) {
				e.fail("%s takes %d arguments", pd.Name, len(pd.Params))
			}
			sub := &Env{vc: vc, fr: e.fr, names: map[string]TV{}, bound: e.bound, st: e.st, old: e.old, pkg: vc.eng.pkgByPath(pd.Pkg, e.pkg), side: e.side}
			for i, a := range args {
				pt := vc.eng.resolveType(pd.Params[i].T, sub.pkg)
				sub.names[pd.Params[i].Name] = e.coerce(e.eval(a, pt), pt)
			}
			return sub.coerce(sub.eval(pd.Body, rt), rt)
		}
	}
	name := vc.declarePred(pd)
	var ts []string
	for i, a := range args {
		pt := vc.eng.resolveType(pd.Params[i].T, vc.eng.pkgByPath(pd.Pkg, e.pkg))
		v := e.coerce(e.eval(a, pt), pt)
		if vc.sortOf(v.typ) != vc.sortOf(pt) {
			if (isIntType(v.typ) || vc.isMathInt(v.typ)) && (isIntType(pt) || vc.isMathInt(pt)) {
				v = TV{term: vc.convertInt(v.term, v.typ, pt), typ: pt}
			} else {
				e.fail("argument %d of %s: got %s, want %s", i, pd.Name, v.typ, pt)
			}
		}
		ts = append(ts, v.term)
	}
	if len(ts) != len(pd.Params) {
		e.fail("%s takes %d arguments", pd.Name, len(pd.Params))
	}
	// heap-dependent predicates take the current state's heaps implicitly: not supported — preds are pure
	if len(ts) == 0 {
		return TV{term: name, typ: rt}
	}
	return TV{term: fmt.Sprintf("(%s %s)", name, strings.Join(ts, " ")), typ: rt}
}

func (vc *VC) declarePred(pd *PredDecl) string {
	name := "spec_" + sanitize(pd.Name)
	if vc.declared["pred:"+name] {
		return name
	}
	vc.declared["pred:"+name] = true
	ppkg := vc.eng.pkgByPath(pd.Pkg, vc.pkg)
	env := &Env{vc: vc, names: map[string]TV{}, bound: map[string]TV{}, pkg: ppkg, inPred: true}
	// predicates are state-independent: evaluate against a dummy root state
	env.st = vc.rootState()
	env.old = env.st
	var params []string
	for _, p := range pd.Params {
		t := vc.eng.resolveType(p.T, ppkg)
		pn := "pa!" + sanitize(p.Name)
		params = append(params, fmt.Sprintf("(%s %s)", pn, vc.sortOf(t)))
		env.names[p.Name] = TV{term: pn, typ: t}
	}
	rt := vc.eng.resolveType(pd.Result, ppkg)
	if pd.Uninterp {
		var sorts []string
		for _, p := range pd.Params {
			sorts = append(sorts, vc.sortOf(vc.eng.resolveType(p.T, ppkg)))
		}
		vc.decl("f:"+name, fmt.Sprintf("(declare-fun %s (%s) %s)", name, strings.Join(sorts, " "), vc.sortOf(rt)))
		vc.trust("uninterpreted spec function %s: only assumed contracts and requires clauses constrain it", pd.Name)
		return name
	}
	if vc.opaque[pd.Name] {
		// opaque in this unit: only the lemmas in use say anything about it
		var sorts []string
		for _, p := range pd.Params {
			sorts = append(sorts, vc.sortOf(vc.eng.resolveType(p.T, ppkg)))
		}
		vc.decl("f:"+name, fmt.Sprintf("(declare-fun %s (%s) %s)", name, strings.Join(sorts, " "), vc.sortOf(rt)))
		vc.note("spec function %s is opaque in this unit (its definition is hidden; the lemmas in use are proved against the definition)", pd.Name)
		return name
	}
	// reserve position: recursive preds must be declared before their body is evaluated
	idx := len(vc.decls)
	vc.decls = append(vc.decls, "")
	var body TV
	func() {
		defer func() {
			if r := recover(); r != nil {
				if ee, ok := r.(evalErr); ok {
					panic(bindErr(fmt.Sprintf("%s:%d: pred %s: %s", shortFile(pd.File), pd.Line, pd.Name, string(ee))))
				}
				panic(r)
			}
		}()
		body = env.coerce(env.eval(pd.Body, rt), rt)
	}()
	kw := "define-fun"
	if pd.Rec {
		kw = "define-fun-rec"
	}
	// declarations created while evaluating the body (literals, nested preds) must precede this definition:
	// move them before idx
	created := append([]string(nil), vc.decls[idx+1:]...)
	def := fmt.Sprintf("(%s %s (%s) %s %s)", kw, name, strings.Join(params, " "), vc.sortOf(rt), body.term)
	vc.decls = append(vc.decls[:idx], append(created, def)...)
	return name
}

// methodCall: pure interface/concrete methods in contracts, e.g. fi.IsDir(), fi.Mode()
func (e *Env) methodCall(recv TV, method string, args []Expr) TV {
	if recv.typ == nil {
		e.fail("method call on untyped value")
	}
	vc := e.vc
	// interface method with an assumed pure contract
	if _, ok := recv.typ.Underlying().(*types.Interface); ok {
		name := ""
		switch n := recv.typ.(type) {
		case *types.Named:
			if n.Obj().Pkg() != nil {
				name = shortPkg(n.Obj().Pkg().Path()) + "." + n.Obj().Name() + "." + method
			} else {
				name = n.Obj().Name() + "." + method
			}
		case *types.Alias:
			return e.methodCall(TV{term: recv.term, typ: types.Unalias(n)}, method, args)
		}
		fc := vc.eng.lookupExtern(name, "method")
		if fc == nil || !fc.Pure {
			e.fail("method %s has no pure assumed contract", name)
		}
		ms := types.NewMethodSet(recv.typ)
		sel := ms.Lookup(nil, method)
		if sel == nil {
			for i := 0; i < ms.Len(); i++ {
				if ms.At(i).Obj().Name() == method {
					sel = ms.At(i)
				}
			}
		}
		if sel == nil {
			e.fail("no method %s on %s", method, recv.typ)
		}
		sig := sel.Type().(*types.Signature)
		fname := fmt.Sprintf("pure_%s_%d", sanitize(fc.Name), 0)
		sorts := []string{vc.sortOf(recv.typ)}
		ts := []string{recv.term}
		for i, a := range args {
			pt := sig.Params().At(i).Type()
			v := e.coerce(e.eval(a, pt), pt)
			sorts = append(sorts, vc.sortOf(pt))
			ts = append(ts, v.term)
		}
		rt := sig.Results().At(0).Type()
		vc.decl("f:"+fname, fmt.Sprintf("(declare-fun %s (%s) %s)", fname, strings.Join(sorts, " "), vc.sortOf(rt)))
		return TV{term: fmt.Sprintf("(%s %s)", fname, strings.Join(ts, " ")), typ: rt}
	}
	// concrete method: small pure in-repo/stdlib accessors are evaluated by inlining their SSA
	fn := vc.eng.lookupMethod(recv.typ, method)
	if pt, ok := recv.typ.Underlying().(*types.Pointer); ok {
		// prefer the value-receiver method of the pointee (the pointer method set only holds a wrapper)
		ms := vc.eng.prog.MethodSets.MethodSet(pt.Elem())
		for i := 0; i < ms.Len(); i++ {
			if ms.At(i).Obj().Name() == method {
				if f2 := vc.eng.prog.MethodValue(ms.At(i)); f2 != nil {
					fn = f2
				}
			}
		}
	}
	if fn == nil {
		e.fail("no method %s on %s", method, recv.typ)
	}
	if fc := vc.eng.lookupExtern(canonFunc(fn), "extern"); fc != nil && fc.Pure {
		sig := fn.Signature
		fname := fmt.Sprintf("pure_%s_%d", sanitize(fc.Name), 0)
		rt0 := sig.Recv().Type()
		rterm := recv.term
		sorts := []string{vc.sortOf(rt0)}
		if pt, ok := recv.typ.Underlying().(*types.Pointer); ok && vc.sortOf(rt0) != "Int" {
			// value-receiver method called through a pointer: load the object
			rterm = fmt.Sprintf("(select %s %s)", e.st.get(vc.heapVar(pt.Elem())), recv.term)
		} else if vc.sortOf(recv.typ) != vc.sortOf(rt0) {
			e.fail("receiver of %s has type %s, want %s", method, recv.typ, rt0)
		}
		ts := []string{rterm}
		for i, a := range args {
			pt := sig.Params().At(i).Type()
			v := e.coerce(e.eval(a, pt), pt)
			sorts = append(sorts, vc.sortOf(pt))
			ts = append(ts, v.term)
		}
		rt := sig.Results().At(0).Type()
		vc.decl("f:"+fname, fmt.Sprintf("(declare-fun %s (%s) %s)", fname, strings.Join(sorts, " "), vc.sortOf(rt)))
		return TV{term: fmt.Sprintf("(%s %s)", fname, strings.Join(ts, " ")), typ: rt}
	}
	if e.fr == nil {
		e.fail("method call %s outside a function context", method)
	}
	if !vc.eng.inlinable(fn, false) {
		e.fail("method %s is not an inlinable accessor", fn)
	}
	ts := []string{recv.term}
	for i, a := range args {
		pt := fn.Signature.Params().At(i).Type()
		ts = append(ts, e.coerce(e.eval(a, pt), pt).term)
	}
	_, res := e.fr.inline(e.st, "true", fn, ts, nil, token.NoPos)
	return TV{term: res[0], typ: fn.Signature.Results().At(0).Type()}
}

// pureCall: package-level function with an assumed pure contract, e.g. os.IsNotExist(err), filepath.Join(a,b)
func (e *Env) pureCall(name string, _ *FuncContract, args []Expr, obj types.Object) TV {
	return e.pureCallIdx(name, args, obj, 0)
}

func (e *Env) pureCallIdx(name string, args []Expr, obj types.Object, ridx int) TV {
	vc := e.vc
	fn, ok := obj.(*types.Func)
	if !ok {
		e.fail("%s is not a function", name)
	}
	fc := vc.eng.lookupExtern(name, "extern")
	if fc == nil || !fc.Pure {
		// small real functions can be inlined (unix.Mkdev, ...)
		if sf := vc.eng.prog.FuncValue(fn); sf != nil && vc.eng.inlinable(sf, false) && e.fr != nil {
			var ts []string
			for i, a := range args {
				pt := sf.Signature.Params().At(i).Type()
				ts = append(ts, e.coerce(e.eval(a, pt), pt).term)
			}
			_, res := e.fr.inline(e.st, "true", sf, ts, nil, token.NoPos)
			return TV{term: res[0], typ: sf.Signature.Results().At(0).Type()}
		}
		e.fail("function %s has no pure assumed contract", name)
	}
	sig := fn.Type().(*types.Signature)
	fname := fmt.Sprintf("pure_%s_%d", sanitize(fc.Name), ridx)
	var sorts, ts []string
	for i, a := range args {
		var pt types.Type
		if sig.Variadic() && i >= sig.Params().Len()-1 {
			pt = sig.Params().At(sig.Params().Len() - 1).Type().(*types.Slice).Elem()
		} else {
			pt = sig.Params().At(i).Type()
		}
		v := e.coerce(e.eval(a, pt), pt)
		sorts = append(sorts, vc.sortOf(pt))
		ts = append(ts, v.term)
	}
	rt := sig.Results().At(ridx).Type()
	if sig.Variadic() {
		fname = fmt.Sprintf("%s_n%d", fname, len(args))
	}
	vc.decl("f:"+fname, fmt.Sprintf("(declare-fun %s (%s) %s)", fname, strings.Join(sorts, " "), vc.sortOf(rt)))
	if ridx == 0 && !sig.Variadic() {
		e.numericPureAxiom(fc, fname, sig)
	}
	if len(ts) == 0 {
		return TV{term: fname, typ: rt}
	}
	app := fmt.Sprintf("(%s %s)", fname, strings.Join(ts, " "))
	e.pureEnsuresFact(fc, sig, ts, app, ridx)
	return TV{term: app, typ: rt}
}

// pureEnsuresFact: an application of a pure assumed function that occurs only in a contract (the
// program never made that call on the path at hand) still satisfies the function's assumed
// `ensures`: they are added, instantiated at the arguments, to the hypotheses of the clause being
// evaluated. Skipped under a quantifier (the arguments mention bound variables) and for variadic
// functions.
func (e *Env) pureEnsuresFact(fc *FuncContract, sig *types.Signature, ts []string, app string, ridx int) {
	if e.side == nil || e.inPureFact || ridx != 0 || sig.Variadic() || len(fc.Ensures) == 0 || len(fc.Params) != len(ts) || len(fc.Results) < 1 {
		return
	}
	for _, t := range ts {
		if strings.Contains(t, "qv!") {
			return
		}
	}
	if strings.Contains(app, "qv!") {
		return
	}
	env := &Env{vc: e.vc, fr: e.fr, names: map[string]TV{}, bound: map[string]TV{}, st: e.st, old: e.st, pkg: e.pkg, side: e.side, inPureFact: true}
	for i, p := range fc.Params {
		env.names[p.Name] = TV{term: ts[i], typ: sig.Params().At(i).Type()}
	}
	env.names[fc.Results[0].Name] = TV{term: app, typ: sig.Results().At(0).Type()}
	env.names["result"] = env.names[fc.Results[0].Name]
	for _, c := range fc.Ensures {
		func() {
			defer func() { recover() }() // a clause that does not bind here (other results, effects) is skipped
			t := env.evalBool(c.E)
			e.addFact("pure:"+app, t)
		}()
	}
}

// numericPureAxiom: for a pure assumed function from integers to an integer the `ensures`
// clauses are asserted once as a quantified axiom over the uninterpreted function, so that they
// also hold for applications inside spec functions and under quantifiers (SizeOfVarint: 1..10).
func (e *Env) numericPureAxiom(fc *FuncContract, fname string, sig *types.Signature) {
	vc := e.vc
	if len(fc.Ensures) == 0 || sig.Results().Len() != 1 || !isIntType(sig.Results().At(0).Type()) || vc.declared["pureax:"+fname] {
		return
	}
	for i := 0; i < sig.Params().Len(); i++ {
		if !isIntType(sig.Params().At(i).Type()) {
			return
		}
	}
	vc.declared["pureax:"+fname] = true
	env := &Env{vc: vc, fr: e.fr, names: map[string]TV{}, bound: map[string]TV{}, st: e.st, old: e.st, pkg: e.pkg}
	var binders, args, ranges []string
	for i := 0; i < sig.Params().Len() && i < len(fc.Params); i++ {
		vc.nfresh++
		bn := fmt.Sprintf("qv!%s_%d", sanitize(fc.Params[i].Name), vc.nfresh)
		pt := sig.Params().At(i).Type()
		binders = append(binders, fmt.Sprintf("(%s %s)", bn, vc.sortOf(pt)))
		args = append(args, bn)
		env.names[fc.Params[i].Name] = TV{term: bn, typ: pt}
		if rf := vc.rangeFact(bn, pt); rf != "true" {
			ranges = append(ranges, rf)
		}
	}
	if len(args) != sig.Params().Len() || len(fc.Results) != 1 {
		return
	}
	app := fmt.Sprintf("(%s %s)", fname, strings.Join(args, " "))
	env.names[fc.Results[0].Name] = TV{term: app, typ: sig.Results().At(0).Type()}
	var conj []string
	for _, c := range fc.Ensures {
		conj = append(conj, env.evalBool(c.E))
	}
	vc.assume(fmt.Sprintf("(forall (%s) (! (=> %s %s) :pattern (%s)))", strings.Join(binders, " "), and(ranges...), and(conj...), app))
}
