package main

// SMT context for one verification unit (a function or a lemma): ordered
// declarations, assumptions, sorts for Go types, fresh names.

import (
	"fmt"
	"go/types"
	"math/big"
	"os"
	"sort"
	"strings"
)

type Obligation struct {
	Name     string   // e.g. fsutil.ComparePath#post.lt
	Unit     string   // function / lemma name
	Kind     string   // post, pre, inv.init, inv.keep, safety.*, frame, lemma, assert, vacuity
	Props    []string // property ids this obligation serves
	Known    bool     // fails by design: states a recorded known finding
	Guard    string   // path condition (SMT)
	Goal     string   // SMT Bool term to prove under Guard and the unit's assumptions
	Src      string   // contract source text
	File     string
	Line     int
	Pos      string // Go source position
	MustFail bool   // vacuity probes: expected sat
	small    bool
	vc       *VC
	// results
	Status    string // discharged | refuted | unknown | error
	Backend   string
	Time      float64
	Output    string
	Model     map[string]string
	NAssert   int
	NDecl     int
	NValueQ   int
	hkey      string
	quickOnly bool
	Extra     []string // extra assumptions for this obligation only (clause-level lemma use)
}

type VC struct {
	eng         *Engine
	unit        string
	mode        string // "int" | "bv"
	decls       []string
	declared    map[string]bool
	asserts     []string
	obls        []*Obligation
	nfresh      int
	strLits     map[string]string // literal -> const name
	seenLen     map[string]bool
	structs     map[string]bool
	typeIDs     map[string]int
	mathint     *types.Named
	notes       []string // abstractions applied (for evidence)
	unbound     []string // clauses that did not bind (skipped, reported UNDECIDED)
	incomplete  []string // modelling gaps met in this unit: undischarged obligations are undecided, not violations
	noteSet     map[string]bool
	valueQ      []string // terms to request with get-value on sat
	valueQSet   map[string]bool
	pkg         *types.Package
	trusted     map[string]bool
	svSorts     map[string]string
	replayFrame *Frame
	smallHints  []string
	opaque      map[string]bool
	lemmaTerms  map[string]string
	heapTypes   map[types.Type]string
	arrTypes    map[string]types.Type
	mapTypes    map[string]*types.Map
}

func newVC(eng *Engine, unit, mode string, pkg *types.Package) *VC {
	vc := &VC{eng: eng, unit: unit, mode: mode, declared: map[string]bool{}, strLits: map[string]string{},
		seenLen: map[string]bool{}, structs: map[string]bool{}, typeIDs: eng.typeIDs, noteSet: map[string]bool{}, pkg: pkg,
		valueQSet: map[string]bool{}, trusted: map[string]bool{}, svSorts: map[string]string{}, heapTypes: map[types.Type]string{}, arrTypes: map[string]types.Type{}, mapTypes: map[string]*types.Map{}}
	vc.mathint = eng.mathint
	vc.prelude()
	return vc
}

func (vc *VC) note(f string, a ...interface{}) {
	s := fmt.Sprintf(f, a...)
	if !vc.noteSet[s] {
		vc.noteSet[s] = true
		vc.notes = append(vc.notes, s)
	}
}

func (vc *VC) trust(f string, a ...interface{}) {
	vc.trusted[fmt.Sprintf(f, a...)] = true
}

func (vc *VC) isBV() bool { return vc.mode == "bv" }

func (vc *VC) goInt() string {
	if vc.isBV() {
		return "(_ BitVec 64)"
	}
	return "Int"
}

func (vc *VC) byteSort() string {
	if vc.isBV() {
		return "(_ BitVec 8)"
	}
	return "Int"
}

func (vc *VC) decl(key, text string) {
	if vc.declared[key] {
		return
	}
	vc.declared[key] = true
	vc.decls = append(vc.decls, text)
}

func (vc *VC) assume(t string) {
	if t == "true" {
		return
	}
	vc.asserts = append(vc.asserts, t)
}

func (vc *VC) fresh(prefix string) string {
	vc.nfresh++
	return fmt.Sprintf("%s!%d", sanitize(prefix), vc.nfresh)
}

func (vc *VC) freshConst(prefix, sort string) string {
	n := vc.fresh(prefix)
	vc.decl("c:"+n, fmt.Sprintf("(declare-const %s %s)", n, sort))
	return n
}

func (vc *VC) declConst(name, sort string) string {
	if debugModel && !vc.declared["c:"+name] && (sort == "Bool" || sort == "Int") {
		vc.wantValue(name)
	}
	vc.decl("c:"+name, fmt.Sprintf("(declare-const %s %s)", name, sort))
	return name
}

var debugModel = os.Getenv("GOVC_DEBUG") != ""

func (vc *VC) prelude() {
	gi := vc.goInt()
	vc.decl("s:Str", "(declare-sort Str 0)")
	vc.decl("f:slen", fmt.Sprintf("(declare-fun slen (Str) %s)", gi))
	vc.decl("f:sat", fmt.Sprintf("(declare-fun sat (Str %s) %s)", gi, vc.byteSort()))
	vc.decl("s:Slice", fmt.Sprintf("(declare-datatypes ((Slice 0)) (((mk-slice (sref Int) (soff %s) (slen_ %s) (scap %s)))))", gi, gi, gi))
	vc.decl("s:Iface", "(declare-datatypes ((Iface 0)) (((mk-iface (ityp Int) (ival Int)))))")
	if !vc.isBV() {
		vc.assume("(forall ((s Str)) (! (and (<= 0 (slen s)) (<= (slen s) 281474976710656)) :pattern ((slen s))))")
		vc.assume("(forall ((s Str) (i Int)) (! (and (<= 0 (sat s i)) (<= (sat s i) 255)) :pattern ((sat s i))))")
		// uninterpreted bit operations for int mode (exact cases are rewritten before these are used)
		for _, f := range []string{"band", "bor", "bxor", "bshl", "bshr"} {
			vc.decl("f:"+f, fmt.Sprintf("(declare-fun %s (Int Int) Int)", f))
		}
	}
}

func sanitize(s string) string {
	var sb strings.Builder
	for _, r := range s {
		switch {
		case r >= 'a' && r <= 'z', r >= 'A' && r <= 'Z', r >= '0' && r <= '9', r == '_', r == '.', r == '!', r == '$':
			sb.WriteRune(r)
		case r == '/':
			sb.WriteString("_")
		case r == '*':
			sb.WriteString("P")
		case r == '[':
			sb.WriteString("L")
		case r == ']':
			sb.WriteString("R")
		default:
			sb.WriteString("_")
		}
	}
	return sb.String()
}

// deepUnalias replaces alias types (os.FileMode = io/fs.FileMode) by the types they denote, so
// that the program and the contracts name the same heaps.
func deepUnalias(t types.Type) types.Type {
	t = types.Unalias(t)
	switch u := t.(type) {
	case *types.Pointer:
		return types.NewPointer(deepUnalias(u.Elem()))
	case *types.Slice:
		return types.NewSlice(deepUnalias(u.Elem()))
	case *types.Map:
		return types.NewMap(deepUnalias(u.Key()), deepUnalias(u.Elem()))
	}
	return t
}

func (vc *VC) typeKey(t types.Type) string {
	t = deepUnalias(t)
	s := types.TypeString(t, func(p *types.Package) string { return shortPkg(p.Path()) })
	if len(s) > 80 {
		// anonymous struct etc: hash
		h := uint32(2166136261)
		for i := 0; i < len(s); i++ {
			h = (h ^ uint32(s[i])) * 16777619
		}
		s = fmt.Sprintf("%s_%08x", s[:40], h)
	}
	return sanitize(s)
}

func shortPkg(path string) string {
	const mod = "github.com/tonistiigi/fsutil"
	if path == mod {
		return "fsutil"
	}
	if strings.HasPrefix(path, mod+"/") {
		return "fsutil/" + path[len(mod)+1:]
	}
	return path
}

func intInfo(t types.Type) (width int, signed bool, ok bool) {
	b, isb := t.Underlying().(*types.Basic)
	if !isb || b.Info()&types.IsInteger == 0 {
		return 0, false, false
	}
	switch b.Kind() {
	case types.Int8:
		return 8, true, true
	case types.Int16:
		return 16, true, true
	case types.Int32:
		return 32, true, true
	case types.Int64, types.Int, types.UntypedInt, types.UntypedRune:
		return 64, true, true
	case types.Uint8:
		return 8, false, true
	case types.Uint16:
		return 16, false, true
	case types.Uint32:
		return 32, false, true
	case types.Uint64, types.Uint, types.Uintptr:
		return 64, false, true
	}
	return 0, false, false
}

func (vc *VC) isMathInt(t types.Type) bool {
	return t == vc.mathint
}

func (vc *VC) sortOf(t types.Type) string {
	if vc.isMathInt(t) {
		return "Int"
	}
	switch u := t.Underlying().(type) {
	case *types.Basic:
		switch {
		case u.Info()&types.IsBoolean != 0:
			return "Bool"
		case u.Info()&types.IsInteger != 0:
			if vc.isBV() {
				w, _, _ := intInfo(t)
				return fmt.Sprintf("(_ BitVec %d)", w)
			}
			return "Int"
		case u.Info()&types.IsString != 0:
			return "Str"
		case u.Info()&types.IsFloat != 0:
			return "Real"
		case u.Kind() == types.UnsafePointer, u.Kind() == types.UntypedNil:
			return "Int"
		}
	case *types.Pointer, *types.Map, *types.Chan, *types.Signature:
		return "Int"
	case *types.Slice:
		return "Slice"
	case *types.Array:
		return fmt.Sprintf("(Array %s %s)", vc.goInt(), vc.sortOf(u.Elem()))
	case *types.Interface:
		return "Iface"
	case *types.Struct:
		return vc.structSort(t, u)
	case *types.Tuple:
		if u.Len() == 0 {
			return "Bool"
		}
	}
	panic(unsupported(fmt.Sprintf("no SMT sort for type %s", t)))
}

type unsupported string

func (u unsupported) Error() string { return string(u) }

func (vc *VC) structSort(t types.Type, st *types.Struct) string {
	key := vc.typeKey(t)
	name := "S_" + key
	if vc.structs[name] {
		return name
	}
	vc.structs[name] = true
	var fields []string
	for i := 0; i < st.NumFields(); i++ {
		fs := vc.sortOf(st.Field(i).Type())
		fields = append(fields, fmt.Sprintf("(%s %s)", vc.fieldAcc(t, i), fs))
	}
	if len(fields) == 0 {
		vc.decl("s:"+name, fmt.Sprintf("(declare-datatypes ((%s 0)) (((mk_%s))))", name, name))
	} else {
		vc.decl("s:"+name, fmt.Sprintf("(declare-datatypes ((%s 0)) (((mk_%s %s))))", name, name, strings.Join(fields, " ")))
	}
	return name
}

func (vc *VC) fieldAcc(t types.Type, i int) string {
	st := t.Underlying().(*types.Struct)
	return fmt.Sprintf("%s__%s_%d", vc.typeKey(t), sanitize(st.Field(i).Name()), i)
}

// structUpdate returns the struct value with field i replaced.
func (vc *VC) structUpdate(t types.Type, base string, i int, v string) string {
	st := t.Underlying().(*types.Struct)
	sort := vc.structSort(t, st)
	var parts []string
	for j := 0; j < st.NumFields(); j++ {
		if j == i {
			parts = append(parts, v)
		} else {
			parts = append(parts, fmt.Sprintf("(%s %s)", vc.fieldAcc(t, j), base))
		}
	}
	return fmt.Sprintf("(mk_%s %s)", sort, strings.Join(parts, " "))
}

func (vc *VC) structMake(t types.Type, vals []string) string {
	st := t.Underlying().(*types.Struct)
	sort := vc.structSort(t, st)
	if len(vals) == 0 {
		return "mk_" + sort
	}
	return fmt.Sprintf("(mk_%s %s)", sort, strings.Join(vals, " "))
}

// zero value of a Go type
func (vc *VC) zero(t types.Type) string {
	if vc.isMathInt(t) {
		return "0"
	}
	switch u := t.Underlying().(type) {
	case *types.Basic:
		switch {
		case u.Info()&types.IsBoolean != 0:
			return "false"
		case u.Info()&types.IsInteger != 0:
			return vc.intLit(big.NewInt(0), t)
		case u.Info()&types.IsString != 0:
			return vc.strLit("")
		case u.Info()&types.IsFloat != 0:
			return "0.0"
		default:
			return "0"
		}
	case *types.Pointer, *types.Map, *types.Chan, *types.Signature:
		return "0"
	case *types.Slice:
		z := vc.intLit(big.NewInt(0), types.Typ[types.Int])
		return fmt.Sprintf("(mk-slice 0 %s %s %s)", z, z, z)
	case *types.Array:
		return vc.constArray(vc.sortOf(t), vc.zero(u.Elem()))
	case *types.Interface:
		return "(mk-iface 0 0)"
	case *types.Struct:
		var vals []string
		for i := 0; i < u.NumFields(); i++ {
			vals = append(vals, vc.zero(u.Field(i).Type()))
		}
		return vc.structMake(t, vals)
	}
	panic(unsupported(fmt.Sprintf("no zero value for %s", t)))
}

func (vc *VC) intLit(v *big.Int, t types.Type) string {
	if vc.isBV() && !vc.isMathInt(t) {
		w, _, ok := intInfo(t)
		if !ok {
			w = 64
		}
		m := new(big.Int).Lsh(big.NewInt(1), uint(w))
		x := new(big.Int).Mod(v, m)
		return fmt.Sprintf("(_ bv%s %d)", x.String(), w)
	}
	if v.Sign() < 0 {
		return fmt.Sprintf("(- %s)", new(big.Int).Neg(v).String())
	}
	return v.String()
}

func (vc *VC) intLitN(n int64, t types.Type) string { return vc.intLit(big.NewInt(n), t) }

// strLit declares a constant for a string literal with its length and bytes,
// plus an extensionality axiom so that equality with the literal can be
// concluded from length and bytes.
func (vc *VC) strLit(s string) string {
	if n, ok := vc.strLits[s]; ok {
		return n
	}
	name := fmt.Sprintf("lit!%d", len(vc.strLits))
	vc.strLits[s] = name
	vc.decl("c:"+name, fmt.Sprintf("(declare-const %s Str)", name))
	it := types.Typ[types.Int]
	bt := types.Typ[types.Uint8]
	vc.assume(fmt.Sprintf("(= (slen %s) %s)", name, vc.intLitN(int64(len(s)), it)))
	var conj []string
	conj = append(conj, fmt.Sprintf("(= (slen x) %s)", vc.intLitN(int64(len(s)), it)))
	for i := 0; i < len(s); i++ {
		vc.assume(fmt.Sprintf("(= (sat %s %s) %s)", name, vc.intLitN(int64(i), it), vc.intLitN(int64(s[i]), bt)))
		if len(s) <= 16 {
			conj = append(conj, fmt.Sprintf("(= (sat x %s) %s)", vc.intLitN(int64(i), it), vc.intLitN(int64(s[i]), bt)))
		}
	}
	if len(s) <= 16 {
		body := conj[0]
		if len(conj) > 1 {
			body = "(and " + strings.Join(conj, " ") + ")"
		}
		vc.assume(fmt.Sprintf("(forall ((x Str)) (! (=> %s (= x %s)) :pattern ((slen x))))", body, name))
	}
	// distinct literals are distinct values
	return name
}

// lenOf returns (slen t) and records the non-negativity fact once per term.
func (vc *VC) strLen(t string) string {
	r := fmt.Sprintf("(slen %s)", t)
	if !vc.seenLen[t] && !strings.Contains(t, "qv!") && !strings.Contains(t, "pa!") {
		vc.seenLen[t] = true
		if vc.isBV() {
			vc.assume(fmt.Sprintf("(bvsge %s (_ bv0 64))", r))
			vc.assume(fmt.Sprintf("(bvslt %s (_ bv%d 64))", r, int64(1)<<40))
		} else {
			vc.assume(fmt.Sprintf("(and (<= 0 %s) (<= %s 281474976710656))", r, r))
		}
	}
	return r
}

func (vc *VC) typeID(t types.Type) int {
	k := types.TypeString(t, nil)
	if id, ok := vc.typeIDs[k]; ok {
		return id
	}
	id := len(vc.typeIDs) + 1
	vc.typeIDs[k] = id
	return id
}

// rangeFact returns the range constraint for an integer value of Go type t in int mode.
func (vc *VC) rangeFact(term string, t types.Type) string {
	if vc.isBV() || vc.isMathInt(t) {
		return "true"
	}
	w, signed, ok := intInfo(t)
	if !ok {
		return "true"
	}
	if signed {
		lo := new(big.Int).Neg(new(big.Int).Lsh(big.NewInt(1), uint(w-1)))
		hi := new(big.Int).Sub(new(big.Int).Lsh(big.NewInt(1), uint(w-1)), big.NewInt(1))
		return fmt.Sprintf("(and (<= %s %s) (<= %s %s))", vc.intLit(lo, t), term, term, hi.String())
	}
	hi := new(big.Int).Sub(new(big.Int).Lsh(big.NewInt(1), uint(w)), big.NewInt(1))
	return fmt.Sprintf("(and (<= 0 %s) (<= %s %s))", term, term, hi.String())
}

func and(ts ...string) string {
	var out []string
	for _, t := range ts {
		if t == "true" || t == "" {
			continue
		}
		if t == "false" {
			return "false"
		}
		out = append(out, t)
	}
	switch len(out) {
	case 0:
		return "true"
	case 1:
		return out[0]
	}
	return "(and " + strings.Join(out, " ") + ")"
}

func or(ts ...string) string {
	var out []string
	for _, t := range ts {
		if t == "false" || t == "" {
			continue
		}
		if t == "true" {
			return "true"
		}
		out = append(out, t)
	}
	switch len(out) {
	case 0:
		return "false"
	case 1:
		return out[0]
	}
	return "(or " + strings.Join(out, " ") + ")"
}

func not(t string) string {
	switch t {
	case "true":
		return "false"
	case "false":
		return "true"
	}
	if strings.HasPrefix(t, "(not ") && strings.HasSuffix(t, ")") && balanced(t[5:len(t)-1]) {
		return t[5 : len(t)-1]
	}
	return "(not " + t + ")"
}

func balanced(s string) bool {
	d := 0
	for i := 0; i < len(s); i++ {
		switch s[i] {
		case '(':
			d++
		case ')':
			d--
			if d < 0 {
				return false
			}
		}
	}
	return d == 0
}

func implies(a, b string) string {
	if a == "true" {
		return b
	}
	if a == "false" || b == "true" {
		return "true"
	}
	return "(=> " + a + " " + b + ")"
}

func ite(c, a, b string) string {
	if c == "true" {
		return a
	}
	if c == "false" {
		return b
	}
	if a == b {
		return a
	}
	return "(ite " + c + " " + a + " " + b + ")"
}

func eq(a, b string) string {
	if a == b {
		return "true"
	}
	return "(= " + a + " " + b + ")"
}

// script renders the SMT-LIB script for one obligation.
func (vc *VC) script(o *Obligation, logic string) string {
	var sb strings.Builder
	sb.WriteString("(set-option :produce-models true)\n")
	if logic != "" {
		sb.WriteString("(set-logic " + logic + ")\n")
	}
	decls, asserts := vc.decls, vc.asserts
	if o.NDecl > 0 && o.NDecl <= len(decls) && o.NAssert <= len(asserts) {
		// only what existed when the obligation was created: later program points are irrelevant
		decls, asserts = decls[:o.NDecl], asserts[:o.NAssert]
	}
	for _, d := range decls {
		sb.WriteString(d)
		sb.WriteByte('\n')
	}
	for _, a := range asserts {
		sb.WriteString("(assert ")
		sb.WriteString(a)
		sb.WriteString(")\n")
	}
	for _, x := range o.Extra {
		sb.WriteString("(assert " + x + ")\n")
	}
	if o.MustFail {
		sb.WriteString("(assert " + o.Guard + ")\n")
	} else {
		sb.WriteString("(assert " + o.Guard + ")\n")
		sb.WriteString("(assert (not " + o.Goal + "))\n")
	}
	if o.small {
		for _, h := range vc.smallHints {
			sb.WriteString("(assert " + h + ")\n")
		}
	}
	sb.WriteString("(check-sat)\n")
	vq := vc.valueQ
	if o.NDecl > 0 && o.NValueQ <= len(vq) {
		vq = vq[:o.NValueQ]
	}
	if len(vq) > 0 {
		q := append([]string(nil), vq...)
		sort.Strings(q)
		sb.WriteString("(get-value (" + strings.Join(q, " ") + "))\n")
	}
	return sb.String()
}

func (vc *VC) wantValue(term string) {
	if !vc.valueQSet[term] {
		vc.valueQSet[term] = true
		vc.valueQ = append(vc.valueQ, term)
	}
}

func (vc *VC) addObl(o *Obligation) {
	o.vc = vc
	o.Unit = vc.unit
	o.NAssert = len(vc.asserts)
	o.NDecl = len(vc.decls)
	o.NValueQ = len(vc.valueQ)
	vc.obls = append(vc.obls, o)
}

// constArray: an array with every element equal to v. cvc5 only accepts literal
// values as the default of (as const ...), so non-literal defaults get a named
// array with a quantified definition.
func (vc *VC) constArray(arrSort, v string) string {
	if !strings.Contains(v, "lit!") && !strings.Contains(v, "!") {
		return fmt.Sprintf("((as const %s) %s)", arrSort, v)
	}
	key := "constarr:" + arrSort + "|" + v
	if n, ok := vc.strLits[key]; ok {
		return n
	}
	n := vc.freshConst("zeroarr", arrSort)
	vc.strLits[key] = n
	// index sort = first argument of (Array K V)
	idx := "Int"
	if strings.HasPrefix(arrSort, "(Array ") {
		rest := arrSort[len("(Array "):]
		if strings.HasPrefix(rest, "(") {
			d := 0
			for i := 0; i < len(rest); i++ {
				if rest[i] == '(' {
					d++
				} else if rest[i] == ')' {
					d--
					if d == 0 {
						idx = rest[:i+1]
						break
					}
				}
			}
		} else if j := strings.Index(rest, " "); j > 0 {
			idx = rest[:j]
		}
	}
	vc.assume(fmt.Sprintf("(forall ((i %s)) (! (= (select %s i) %s) :pattern ((select %s i))))", idx, n, v, n))
	return n
}

// ---- absolute element indices. Slice elements are addressed as arr[idx(off, i)] where idx
// is an uninterpreted function with the defining axiom idx(o, a) == o + a (pattern idx(o, a)),
// in program reads/writes and in contract expressions alike. A quantified clause over s[i] then
// has the trigger select(arr, idx(off, i)) in which the bound variable occurs as a plain argument
// (select arr (+ off i) is useless for e-matching: the solvers normalise the sum away).
func (vc *VC) absIdx(slice, i string) string {
	off := fmt.Sprintf("(soff %s)", slice)
	if vc.isBV() {
		return fmt.Sprintf("(bvadd %s %s)", off, i)
	}
	vc.decl("f:idx", "(declare-fun idx (Int Int) Int)")
	vc.decl("ax:idx", "(assert (forall ((o Int) (a Int)) (! (= (idx o a) (+ o a)) :pattern ((idx o a)))))")
	return fmt.Sprintf("(idx %s %s)", off, i)
}

// ---- sums over map ranges (ghost). For a spec function f(k, v) >= 0 (obligation) the contract
// terms  mapsum(m, n, f)  = sum of f over the keys the n-th map range statement has produced so
// far, and  maptotal(m, f) = sum of f over all keys of m, are uninterpreted functions of the map
// value (and the visited set) with the defining facts of a finite sum as axioms:
//
//	psum(M, {}) = 0;  psum(M, V+{k}) = psum(M, V) + f(k, M[k]) for a key k not in V;
//	psum >= 0;  V subset of keys(M), k a key not in V  ==>  psum(M, V) + f(k, M[k]) <= total(M);
//	V = keys(M) ==> psum(M, V) = total(M).
//
// The subset/equality facts about the visited set come from the range model (trans.go: next).
func (vc *VC) visitedPreds(m *types.Map) (sub, full string) {
	ms := vc.mapSort(m)
	ks := vc.sortOf(m.Key())
	sub, full = "vsub_"+ms[2:], "vfull_"+ms[2:]
	vc.decl("f:"+sub, fmt.Sprintf("(declare-fun %s ((Array %s Bool) %s) Bool)", sub, ks, ms))
	vc.decl("f:"+full, fmt.Sprintf("(declare-fun %s ((Array %s Bool) %s) Bool)", full, ks, ms))
	return
}

func (vc *VC) mapSumFuncs(m *types.Map, pd *PredDecl) (psum, ptot string) {
	ms := vc.mapSort(m)
	ks, vs := vc.sortOf(m.Key()), vc.sortOf(m.Elem())
	f := vc.declarePred(pd)
	sub, full := vc.visitedPreds(m)
	psum, ptot = "psum_"+sanitize(pd.Name), "ptot_"+sanitize(pd.Name)
	if vc.declared["mapsum:"+psum] {
		return
	}
	vc.declared["mapsum:"+psum] = true
	set := fmt.Sprintf("(Array %s Bool)", ks)
	vc.decl("f:"+psum, fmt.Sprintf("(declare-fun %s (%s %s) Int)", psum, ms, set))
	vc.decl("f:"+ptot, fmt.Sprintf("(declare-fun %s (%s) Int)", ptot, ms))
	entry := fmt.Sprintf("(%s k (select (%s_vals M) k))", f, ms)
	ax := []string{
		fmt.Sprintf("(forall ((M %s)) (! (= (%s M ((as const %s) false)) 0) :pattern ((%s M ((as const %s) false)))))", ms, psum, set, psum, set),
		fmt.Sprintf("(forall ((M %s) (V %s) (k %s)) (! (=> (and (select (%s_keys M) k) (not (select V k))) (= (%s M (store V k true)) (+ (%s M V) %s))) :pattern ((%s M (store V k true)))))", ms, set, ks, ms, psum, psum, entry, psum),
		fmt.Sprintf("(forall ((M %s) (V %s)) (! (>= (%s M V) 0) :pattern ((%s M V))))", ms, set, psum, psum),
		fmt.Sprintf("(forall ((M %s) (V %s) (k %s)) (! (=> (and (%s V M) (select (%s_keys M) k) (not (select V k))) (<= (+ (%s M V) %s) (%s M))) :pattern ((%s M V) (select (%s_keys M) k))))", ms, set, ks, sub, ms, psum, entry, ptot, psum, ms),
		fmt.Sprintf("(forall ((M %s) (V %s)) (! (=> (and (%s V M) (%s V M)) (= (%s M V) (%s M))) :pattern ((%s M V) (%s V M))))", ms, set, sub, full, psum, ptot, psum, full),
		fmt.Sprintf("(forall ((M %s)) (! (>= (%s M) 0) :pattern ((%s M))))", ms, ptot, ptot),
	}
	for i, a := range ax {
		vc.decl(fmt.Sprintf("ax:%s:%d", psum, i), "(assert "+a+")")
	}
	_ = vs
	vc.trust("sums over map ranges: mapsum/maptotal of %s are uninterpreted with the defining facts of a finite sum of non-negative terms as axioms (non-negativity of %s is a proof obligation)", pd.Name, pd.Name)
	// obligation: f >= 0
	kk := vc.freshConst("ms_k", ks)
	vv := vc.freshConst("ms_v", vs)
	vc.assume(vc.rangeFact(vv, m.Elem()))
	if _, isSl := m.Elem().Underlying().(*types.Slice); isSl {
		vc.assume(fmt.Sprintf("(and (<= 0 (slen_ %s)) (<= (slen_ %s) (scap %s)))", vv, vv, vv))
	}
	vc.addObl(&Obligation{Name: fmt.Sprintf("%s#mapsum.%s.nonneg", vc.unit, sanitize(pd.Name)), Kind: "assert", Guard: "true",
		Goal: fmt.Sprintf("(>= (%s %s %s) 0)", f, kk, vv), Src: "the summand " + pd.Name + " of a map sum is non-negative"})
	return
}
