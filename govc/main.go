package main

import (
	"encoding/json"
	"flag"
	"fmt"
	"os"
	"os/exec"
	"path/filepath"
	"runtime"
	"sort"
	"strconv"
	"strings"
	"time"
)

type KnownFinding struct {
	Property   string `json:"property"`
	Obligation string `json:"obligation"` // obligation name prefix (without .retN / call ordinal)
	What       string `json:"what"`
	Status     string `json:"status"` // "known" | "fixed"
	Commit     string `json:"commit,omitempty"`
	Replay     string `json:"replay,omitempty"` // findings/<file>: for findings identified by a failing input only (obligation "replay.<name>")
}

type KnownFindings struct {
	Findings []KnownFinding `json:"findings"`
}

func loadKnown(path string) KnownFindings {
	var k KnownFindings
	b, err := os.ReadFile(path)
	if err == nil {
		json.Unmarshal(b, &k)
	}
	return k
}

func hasProp(props []string, p string) bool {
	if p == "all" {
		return true
	}
	for _, x := range props {
		if x == p {
			return true
		}
	}
	return false
}

func main() {
	repo := flag.String("repo", "/repo", "repository root")
	verif := flag.String("verif", "/verif", "verification root")
	prop := flag.String("prop", "all", "property id")
	tier := flag.String("tier", "quick", "quick|thorough")
	only := flag.String("only", "", "only units whose name contains this")
	files := flag.String("files", "", "only units whose function is defined in one of these source files (comma separated, relative to the repository root); lemmas are skipped. Used by the must-fail self-test: a change to a function can only change the obligations of the unit of that function (callers use its contract)")
	dump := flag.String("dump", "", "dump the SMT script of obligations whose name contains this")
	verbose := flag.Bool("v", false, "verbose")
	evidenceOut := flag.String("evidence", "", "evidence file to write")
	extraJSON := flag.String("extra", "", "JSON file with extra coverage keys (bounded stand-ins) to merge into the evidence")
	level := flag.String("level", "proof", "evidence level to record")
	flag.Parse()
	t0 := time.Now()
	seed := 0
	if s := os.Getenv("VERIF_SEED"); s != "" {
		seed, _ = strconv.Atoi(s)
	}

	eng, err := NewEngine(*repo)
	if err != nil {
		fmt.Printf("ERROR loading %s: %v\n", *repo, err)
		os.Exit(3)
	}
	if err := eng.LoadContracts(contractFiles(filepath.Join(*verif, "contracts"))); err != nil {
		fmt.Printf("ERROR reading contracts: %v\n", err)
		os.Exit(3)
	}
	tLoad := time.Since(t0).Seconds()

	scratch, err := os.MkdirTemp(os.Getenv("TMPDIR"), "govc-")
	if err != nil {
		scratch, _ = os.MkdirTemp("/var/tmp", "govc-")
	}
	defer os.RemoveAll(scratch)
	timeout := 10 * time.Second
	agree := 1
	if *tier == "thorough" {
		timeout = 60 * time.Second
		agree = 2
	}
	solvers := NewSolvers(scratch, timeout, agree)
	eng.solvers = solvers
	eng.workers = runtime.NumCPU() / 2

	// a contract is checked for the properties it names and for every property whose anchor
	// files (properties.jsonl) contain the function
	augmentProps(eng, filepath.Join(*verif, "properties.jsonl"))
	var units []*UnitResult
	for _, key := range eng.cs.Order {
		fc := eng.cs.Funcs[key]
		if fc.Kind != "func" || !hasProp(fc.Props, *prop) {
			continue
		}
		if *only != "" && !strings.Contains(key, *only) {
			continue
		}
		if *files != "" {
			fn := eng.findFunc(fc)
			if fn == nil {
				// the function of this contract does not exist in this tree: keep the unit (it is reported)
			} else {
				pos := eng.pos(fn.Pos())
				if i := strings.LastIndex(pos, ":"); i >= 0 {
					pos = pos[:i]
				}
				sel := false
				for _, f := range strings.Split(*files, ",") {
					if strings.TrimSpace(f) == pos {
						sel = true
					}
				}
				if !sel {
					continue
				}
			}
		}
		units = append(units, eng.VerifyFunc(key))
	}
	for _, ln := range eng.cs.LemmaOrder {
		l := eng.cs.Lemmas[ln]
		if l.Axiom || !hasProp(l.Props, *prop) {
			continue
		}
		if *only != "" && !strings.Contains("lemma."+ln, *only) {
			continue
		}
		if *files != "" {
			continue
		}
		units = append(units, eng.VerifyLemma(ln))
	}
	tGen := time.Since(t0).Seconds() - tLoad

	var obls []*Obligation
	var covers []*Obligation
	for _, u := range units {
		if u.Err != "" {
			continue
		}
		for _, o := range u.Obls {
			if *prop != "all" && len(o.Props) > 0 && !hasProp(o.Props, *prop) {
				continue
			}
			obls = append(obls, o)
		}
		// vacuity: the unit's assumptions alone are satisfiable; each distinct guard is reachable
		if u.vc != nil {
			seen := map[string]bool{}
			cv := &Obligation{Name: u.Unit + "#vacuity.assumptions", Kind: "vacuity", Guard: "true", Goal: "false", MustFail: true, vc: u.vc, Unit: u.Unit}
			covers = append(covers, cv)
			for _, o := range u.Obls {
				if o.Guard == "true" || seen[o.Guard] || (*tier != "thorough" && len(seen) >= 6) {
					continue
				}
				seen[o.Guard] = true
				covers = append(covers, &Obligation{Name: o.Name + "#cover", Kind: "cover", Guard: o.Guard, Goal: "false", MustFail: true, vc: u.vc, Unit: u.Unit, NAssert: o.NAssert, NDecl: o.NDecl, NValueQ: o.NValueQ})
			}
		}
	}
	if *dump != "" {
		for _, o := range obls {
			if strings.Contains(o.Name, *dump) {
				fmt.Printf(";;;; %s\n%s\n", o.Name, o.vc.script(o, ""))
			}
		}
		return
	}
	workers := runtime.NumCPU() / 2
	if workers < 2 {
		workers = 2
	}
	solvers.discharge(obls, workers)
	solvers.discharge(covers, workers)
	tSolve := time.Since(t0).Seconds() - tLoad - tGen

	known := loadKnown(filepath.Join(*verif, "known_findings.json"))
	os.MkdirAll(filepath.Join(*verif, "replays"), 0755)

	// report
	exit := 0
	nDis := 0
	var violations []string
	var knownMatched []string
	var knownOther []string
	var undecided []string
	var vacuous []string
	for _, c := range covers {
		if c.Status == "vacuous" {
			if c.Kind == "vacuity" {
				vacuous = append(vacuous, c.Name)
			}
		}
	}
	for _, u := range units {
		if u.Err != "" {
			undecided = append(undecided, fmt.Sprintf("%s: %s", u.Unit, u.Err))
		}
		for _, ub := range u.Unbound {
			undecided = append(undecided, fmt.Sprintf("%s: clause does not bind (skipped, the other clauses of the unit are decided): %s", u.Unit, ub))
		}
	}
	incompleteUnit := map[string]string{}
	for _, u := range units {
		if len(u.Incomplete) > 0 {
			incompleteUnit[u.Unit] = u.Incomplete[0]
		}
	}
	sort.Slice(obls, func(i, j int) bool { return obls[i].Name < obls[j].Name })
	for _, o := range obls {
		if *verbose {
			fmt.Printf("  %-11s %-7s %6.2fs  %s\n", o.Status, o.Backend, o.Time, o.Name)
		}
		if o.Status == "discharged" {
			nDis++
			continue
		}
		if o.Status == "error" {
			undecided = append(undecided, fmt.Sprintf("%s: solver rejected the generated query (engine defect): %s", o.Name, firstLines(o.Output, 2)))
			continue
		}
		// known finding?
		matched := false
		for _, k := range known.Findings {
			if k.Status == "known" && hasProp(o.Props, k.Property) && strings.HasPrefix(o.Name, k.Obligation) {
				matched = true
				o.Known = true
				msg := fmt.Sprintf("KNOWN-FINDING: property=%s %s %s", k.Property, k.Obligation, k.What)
				dup := false
				for _, m := range knownMatched {
					if m == msg {
						dup = true
					}
				}
				if !dup && (*prop == "all" || *prop == k.Property) {
					knownMatched = append(knownMatched, msg)
				} else if !dup {
					// a finding recorded for another property whose obligation lives in the same
					// package: not a violation here, printed by the check of its own property
					dupO := false
					for _, m := range knownOther {
						if m == msg {
							dupO = true
						}
					}
					if !dupO {
						knownOther = append(knownOther, msg)
					}
				}
			}
		}
		if matched {
			continue
		}
		if why := incompleteUnit[o.Unit]; why != "" {
			// the unit met a modelling gap: an obligation that does not discharge there is undecided
			undecided = append(undecided, fmt.Sprintf("%s: not discharged, and not reported as a violation because %s", o.Name, why))
			continue
		}
		rp := writeReplay(eng, *verif, *prop, o)
		line := fmt.Sprintf("VIOLATION property=%s replay=%s", propOf(o, *prop), rp.path)
		if !rp.reproduced {
			line += " no-failing-input-found"
		}
		violations = append(violations, line)
	}
	// findings identified by a replayed input only (no contract within reach states them): listed for
	// their own property; in the thorough tier the replay is run and must still fail
	for _, k := range known.Findings {
		if k.Status != "known" || !strings.HasPrefix(k.Obligation, "replay.") || !(*prop == "all" || *prop == k.Property) {
			continue
		}
		msg := fmt.Sprintf("KNOWN-FINDING: property=%s %s %s", k.Property, k.Obligation, k.What)
		if *tier == "thorough" && k.Replay != "" {
			out, _ := exec.Command(filepath.Join(*verif, "findings", "run.sh"), filepath.Base(k.Replay)).CombinedOutput()
			if strings.HasPrefix(string(out), "PASS") {
				msg += " [NOTE: the replay no longer fails on this tree - the finding may have been repaired; update known_findings.json]"
			}
		}
		knownMatched = append(knownMatched, msg)
	}
	for _, m := range knownMatched {
		fmt.Println(m)
	}
	for _, v := range violations {
		fmt.Println(v)
		exit = 1
	}
	if len(vacuous) > 0 {
		for _, v := range vacuous {
			fmt.Printf("BROKEN-CHECK vacuous assumptions: %s\n", v)
		}
		if exit == 0 {
			exit = 2
		}
	}
	if len(undecided) > 0 {
		for _, u := range undecided {
			fmt.Printf("UNDECIDED property=%s reason=%s\n", *prop, u)
		}
		if exit == 0 {
			exit = 2
		}
	}
	wall := time.Since(t0).Seconds()
	fmt.Printf("govc: property=%s tier=%s units=%d obligations=%d discharged=%d violations=%d known=%d undecided=%d  load=%.1fs gen=%.1fs solve=%.1fs total=%.1fs\n",
		*prop, *tier, len(units), len(obls), nDis, len(violations), len(knownMatched)+len(knownOther), len(undecided), tLoad, tGen, tSolve, wall)
	if *evidenceOut != "" {
		knownOtherEv = knownOther
		evidenceLevel = *level
		writeEvidence(*evidenceOut, *prop, *tier, seed, units, obls, covers, solvers, violations, knownMatched, undecided, wall, *extraJSON, eng)
	}
	os.RemoveAll(scratch) // the deferred removal does not run through os.Exit
	os.Exit(exit)
}

func propOf(o *Obligation, prop string) string {
	if prop != "all" {
		return prop
	}
	if len(o.Props) > 0 {
		return o.Props[0]
	}
	return "?"
}

type replayInfo struct {
	path       string
	reproduced bool
}

func writeReplay(eng *Engine, verif, prop string, o *Obligation) replayInfo {
	name := sanitize(strings.ReplaceAll(o.Name, "#", "-"))
	path := filepath.Join(verif, "replays", fmt.Sprintf("%s-%s.json", propOf(o, prop), name))
	rec := map[string]interface{}{
		"obligation": o.Name, "kind": o.Kind, "status": o.Status, "contract": o.Src, "contract_file": o.File, "contract_line": o.Line,
		"go_position": o.Pos, "backend": o.Backend, "solver_seconds": o.Time, "solver_output": truncate(o.Output, 4000), "model": o.Model,
	}
	reproduced := false
	if o.Status == "refuted" {
		if rr := tryReplay(eng, verif, o); rr != nil {
			rec["replay_test"] = rr.test
			rec["replay_output"] = truncate(rr.output, 4000)
			rec["replay_reproduced"] = rr.reproduced
			rec["replay_note"] = rr.note
			reproduced = rr.reproduced
		}
	}
	b, _ := json.MarshalIndent(rec, "", " ")
	os.WriteFile(path, b, 0644)
	return replayInfo{path: path, reproduced: reproduced}
}

func truncate(s string, n int) string {
	if len(s) > n {
		return s[:n] + "…"
	}
	return s
}

func writeEvidence(path, prop, tier string, seed int, units []*UnitResult, obls, covers []*Obligation, solvers *Solvers, violations, known, undecided []string, wall float64, extra string, eng *Engine) {
	nDis, nKnown := 0, 0
	for _, o := range obls {
		if o.Status == "discharged" {
			nDis++
		} else if o.Known {
			nKnown++
		}
	}
	trusted := map[string]bool{}
	var fns []map[string]interface{}
	var lemmas []string
	// a precondition is proved at the static call sites inside functions under contract (pre@ obligations)
	// and is an assumption for every other caller: dynamic calls through interfaces and function values
	// (closures handed to a walk), callers outside the module
	preSites := map[string]int{}
	for _, o := range obls {
		if i := strings.Index(o.Name, "#pre@"); i >= 0 {
			callee := o.Name[i+5:]
			if j := strings.LastIndex(callee, "."); j >= 0 {
				callee = callee[:j]
			}
			if j := strings.LastIndex(callee, "."); j >= 0 {
				preSites[callee[:j]]++
			}
		}
	}
	for _, u := range units {
		for _, t := range u.Trusted {
			trusted[t] = true
		}
		if u.Kind == "lemma" {
			lemmas = append(lemmas, u.Unit)
			continue
		}
		if u.fc != nil {
			for _, c := range u.fc.Requires {
				short := u.fc.Name
				trusted[fmt.Sprintf("precondition of %s: `%s` - an obligation at its static call sites in functions under contract (%d in this run), assumed for every other caller (interface and function-value calls, callers outside the module)", u.Unit, c.Src, preSites[short])] = true
			}
		}
		n, d := 0, 0
		for _, o := range u.Obls {
			n++
			if o.Status == "discharged" {
				d++
			}
		}
		m := map[string]interface{}{"name": u.Unit, "position": u.Pos, "ssa_instructions": u.NInstr, "mode": u.Mode,
			"loops": u.Loops, "loops_with_annotated_invariant": u.LoopsAnnot, "obligations": n, "discharged": d, "abstractions": u.Notes}
		if u.Err != "" {
			m["undecided"] = u.Err
		}
		if u.fc != nil && u.fc.Trusted {
			m["trusted_not_verified"] = true
		}
		if u.Mode == "int" {
			ov := false
			if u.fc != nil {
				ov = u.fc.Safety["overflow"]
			}
			if ov {
				m["arithmetic"] = "mathematical integers, justified by a discharged no-overflow obligation per signed operation; unsigned arithmetic exact (mod 2^w)"
			} else {
				m["arithmetic"] = "mathematical integers for signed arithmetic (overflow NOT checked — assumption); unsigned arithmetic exact (mod 2^w)"
				trusted[fmt.Sprintf("signed machine arithmetic treated as mathematical in %s (no overflow obligations)", u.Unit)] = true
			}
		} else {
			m["arithmetic"] = "exact fixed-width bit-vectors"
		}
		fns = append(fns, m)
	}
	var tb []string
	for t := range trusted {
		tb = append(tb, t)
	}
	sort.Strings(tb)
	tb = append(tb, "the SSA->SMT translation of govc itself (mitigated by must-fail self-tests, cross-solver race and replay)",
		"go/ssa construction from the source files in /repo (drops comments, names of temporaries, dead code)",
		"solvers z3 4.8.12, z3 5.1.0, cvc5 1.0.3")
	sorted := append([]*Obligation(nil), obls...)
	sort.Slice(sorted, func(i, j int) bool { return sorted[i].Time > sorted[j].Time })
	var slowest []map[string]interface{}
	for i := 0; i < len(sorted) && i < 5; i++ {
		slowest = append(slowest, map[string]interface{}{"obligation": sorted[i].Name, "seconds": round2(sorted[i].Time), "backend": sorted[i].Backend})
	}
	var samples []map[string]interface{}
	step := len(obls)/6 + 1
	for i := 0; i < len(obls); i += step {
		o := obls[i]
		samples = append(samples, map[string]interface{}{"obligation": o.Name, "kind": o.Kind, "contract": o.Src, "go_position": o.Pos,
			"assumptions_in_query": o.NAssert, "result": o.Status, "backend": o.Backend, "seconds": round2(o.Time)})
	}
	nCover, nCoverOK, nUnreach := 0, 0, 0
	var unreachable []string
	for _, c := range covers {
		nCover++
		if c.Status == "discharged" {
			nCoverOK++
		} else {
			nUnreach++
			unreachable = append(unreachable, c.Name)
		}
	}
	cov := map[string]interface{}{
		// the obligations that state a recorded known finding fail by design (KNOWN-FINDING lines);
		// they are counted apart, so that discharged == obligations says "everything else is proved"
		"obligations": len(obls) - nKnown, "discharged": nDis, "obligations_generated": len(obls), "obligations_of_known_findings": nKnown,
		"checker_cmd":  fmt.Sprintf("/verif/bin/govc -repo /repo -verif /verif -prop %s -tier %s (VCs generated from go/ssa of the current tree; each obligation raced on z3 4.8.12 / z3 5.1.0 / cvc5 1.0.3)", prop, tier),
		"trusted_base": tb, "functions_under_contract": fns, "lemmas": lemmas, "by_backend": solvers.stats, "slowest": slowest, "samples": samples,
		"vacuity":                map[string]interface{}{"cover_queries": nCover, "reachable_or_unknown": nCoverOK, "unreachable_guards": unreachable},
		"known_findings_matched": known, "known_findings_of_other_properties_in_the_same_packages": knownOtherEv, "undecided_units": undecided,
	}
	if extra != "" {
		if b, err := os.ReadFile(extra); err == nil {
			var m map[string]interface{}
			if json.Unmarshal(b, &m) == nil {
				for k, v := range m {
					cov[k] = v
				}
			}
		}
	}
	var assumptions []string
	assumptions = append(assumptions, tb...)
	ev := map[string]interface{}{
		"property_id": prop, "tier": tier, "seed": seed, "level": evidenceLevel, "coverage": cov, "assumptions": assumptions,
		"wall_s": round2(wall), "violations": len(violations),
	}
	b, _ := json.MarshalIndent(ev, "", " ")
	os.MkdirAll(filepath.Dir(path), 0755)
	os.WriteFile(path, b, 0644)
}

var evidenceLevel = "proof"

var knownOtherEv []string

func round2(f float64) float64 { return float64(int(f*100+0.5)) / 100 }

func augmentProps(eng *Engine, path string) {
	b, err := os.ReadFile(path)
	if err != nil {
		return
	}
	anchors := map[string][]string{}
	pkgProps := map[string][]string{}
	for _, line := range strings.Split(string(b), "\n") {
		var p struct {
			ID      string `json:"id"`
			Anchors struct {
				Files []string `json:"files"`
			} `json:"anchors"`
		}
		if json.Unmarshal([]byte(line), &p) != nil || p.ID == "" {
			continue
		}
		for _, f := range p.Anchors.Files {
			f = strings.Fields(f)[0]
			anchors[f] = append(anchors[f], p.ID)
			// ... and for every property anchored in the same package: the helpers and adaptors a
			// mechanism relies on (stat conversion, mode predicates, device numbers, comparators)
			// live next to it, and a change in one of them breaks the property just as well
			d := filepath.Dir(f)
			if !hasProp(pkgProps[d], p.ID) {
				pkgProps[d] = append(pkgProps[d], p.ID)
			}
			// the root package builds every stat through the wrappers of package types (mode
			// predicates, codec entry points): a property anchored in the root package runs them too
			if d == "." && !hasProp(pkgProps["types"], p.ID) {
				pkgProps["types"] = append(pkgProps["types"], p.ID)
			}
		}
	}
	for _, key := range eng.cs.Order {
		fc := eng.cs.Funcs[key]
		if fc.Kind != "func" {
			continue
		}
		fn := eng.findFunc(fc)
		if fn == nil {
			continue
		}
		pos := eng.pos(fn.Pos())
		if i := strings.LastIndex(pos, ":"); i >= 0 {
			pos = pos[:i]
		}
		for _, id := range append(append([]string(nil), anchors[pos]...), pkgProps[filepath.Dir(pos)]...) {
			if !hasProp(fc.Props, id) {
				fc.Props = append(fc.Props, id)
			}
		}
	}
}
