#!/usr/bin/env python3
# Generates /verif/MANIFEST.json. Edit CLAIMED / texts here, then run.
import json, subprocess

CLAIMED = {
 "C12": dict(
  text="Proof (all inputs, all iterations): ComparePath is proved equal to the first-difference path order with the separator lowest (three postconditions + termination), the order lemmas (irreflexive, asymmetric, transitive, total as a corollary of the verified function) are discharged over the spec, and the validator's soundness direction is proved per call. The completeness direction (accepts every good sequence) is a bounded stand-in and is labelled so in the evidence.",
  note="Assumes: govc's SSA->SMT translation; string extensionality axiom; audited axioms on filepath.Clean/Dir/Base/Join/IsAbs; sort.Search assumed contract; os.FileInfo methods pure.",
  design="DESIGN.md section 3 C12"),
}

NOT_APPLICABLE = {
 "C04": "liveness/termination of both ends under faults and schedules: a concurrent-program property (channels, errgroup, select); per-function sequential contracts cannot express 'both calls return' — see DESIGN.md C04",
 "C08": "quantified over interleavings and data races; the VC generator has no thread semantics and contract-based sequential verification cannot decide any of its three clauses — see DESIGN.md C08",
}

NOT_YET = "check not built yet in this round (see DESIGN.md build order); not claimed"

ALL = ["C%02d" % i for i in range(1, 21)]

def main():
    hook_commits = subprocess.run(["git", "-C", "/repo", "log", "--format=%H %s"], capture_output=True, text=True).stdout.splitlines()
    hooks = [l.split()[0] for l in hook_commits if " verif:" in l or "verif hook" in l]
    checks = []
    for pid in ALL:
        if pid not in CLAIMED:
            continue
        c = CLAIMED[pid]
        checks.append({
            "property_id": pid,
            "quick_cmd": "./check %s quick" % pid,
            "thorough_cmd": "./check %s thorough" % pid,
            "evidence_file": "/verif/evidence/%s.json" % pid,
            "replay_cmd_template": "./check --replay {path}",
            "engine": "govc",
            "level_claimed": {"category": c.get("category", "proof"), "text": c["text"], "design_ref": c["design"]},
            "level_note": c["note"],
            "technique": c.get("technique", "contract-based deductive verification: weakest-precondition style VCs generated from go/ssa of the real functions against //@ contracts, discharged by z3/cvc5"),
        })
    na = []
    for pid in ALL:
        if pid in CLAIMED:
            continue
        na.append({"property_id": pid, "reason": NOT_APPLICABLE.get(pid, NOT_YET)})
    m = {
        "version": 1,
        "setup_cmd": "./setup.sh",
        "hooks": {
            "guard": "verif",
            "enable": "go build tag 'verif' (-tags=verif): makes the comment-only contract files /repo/**/contracts_verif.go visible; govc loads the packages with this tag",
            "baseline_off_cmd": "cd /repo && GOFLAGS=-mod=mod GOPROXY=off GOSUMDB=off GOTOOLCHAIN=local go test -vet=off -count=1 -timeout 25m ./...",
            "source_commits": hooks,
            "add_only": True,
        },
        "engines": [{
            "name": "govc", "path": "/verif/govc", "serves_properties": sorted(CLAIMED.keys()),
            "kind_free_text": "self-written verification-condition generator over go/ssa (x/tools v0.29.0) for Go functions under //@ contracts (requires/ensures/loop invariants/decreases/modifies/effects/ghost state/lemmas); obligations discharged by racing z3 4.8.12, z3 5.1.0 and cvc5 1.0.3; sat models replayed on the real code with go test -overlay",
        }],
        "checks": checks,
        "not_applicable": na,
        "notes": "Known findings are listed in /verif/known_findings.json. Bounded stand-ins are reported under coverage.bounded_standins and never counted in obligations/discharged.",
    }
    json.dump(m, open("/verif/MANIFEST.json", "w"), indent=1)
    print("MANIFEST.json written:", len(checks), "checks,", len(na), "not claimed")

main()
