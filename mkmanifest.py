#!/usr/bin/env python3
# Generates /verif/MANIFEST.json. Edit CLAIMED / texts here, then run.
import json, subprocess

CLAIMED = {
 "C01": dict(
  text="Proof of every per-entry decision of the transfer and of every argument handed to the kernel, for all stats, modes and paths: diff step (pathChange via the ComparePath contract, merge-loop step obligations), DiskWriter.HandleChange (Lstat-only inspection, creation arm by mode, metadata applied after creation and before rename, RemoveAll iff dir<->non-dir switch, dirModTimes recorded), rewriteMetadata order (xattrs, owner, mode never on symlinks, times last, no-follow), exact nanosecond split in chtimes, mtime re-applied after the asynchronous content write, device number round trip (bit-vector lemma over the real unix.Mkdev body) and device type bits. Not decided: that these per-entry facts compose to tree equality over a real disk and under concurrency (explicit assumption). Round 3: the check runs every contract of the root package and of types (DESIGN 15.1); destination walked unless merging and walked whole (getWalkerFn, Walk); walk entries carry a stat by a proved channel invariant; the filter's copy of the stat is what is written; directory times restored also for a symlinked destination (F35, repaired); hard link source not a leftover symlink (F29, repaired). Known: F17 (capabilities), F36 (metadata differ keeps a same-size same-mtime file, by design). A later name of a hard-linked fifo or device is linked, not created again (F39, repaired); an existing entry is replaced by rename, never reopened in place; the temporary name is gone after the rename (F38, repaired).",
  note="Assumed contracts (effects) on os.*/unix.*/sysx.* calls; user callbacks do not modify fsutil objects; channel/goroutine semantics not modelled; trusted generated Stat.Clone; signed arithmetic mathematical where safety +overflow is not set.",
  design="DESIGN.md section 3 C01"),
 "C02": dict(
  text="Proof: compareStat/sameFile equal the identity tuple of the statement for all stat pairs (every field; size and mtime exactly for non-directories), DiffNone disables it; the merge loop forwards a change for a common path only if !same; content is requested only on the regular non-link arm of HandleChange, at most once per call; asyncDataFunc sends exactly one REQ with the announced id and consumes the path; fileCanRequestData pinned to the numeric type mask (bit-vector). Whole-merge minimality over two sorted sequences is a bounded stand-in (not counted as proved). Round 3: nextPath is proved from a channel invariant (no trusted contract left in the root package); destination compared unless merging; SubDirFS keeps a re-rooted symlink's size consistent (F24, repaired: such a link was re-created on every re-sync). Hard-linked special files keep their identity across re-syncs (F39, repaired).",
  note="Assumed: the channel invariant of walk entries rests on a module-wide syntactic scan (sends only in functions under contract, entry fields written only at construction) and on a precondition of the destination walker callback; os effects, callbacks; destination and source stats come from the same constructor (call-graph fact).",
  design="DESIGN.md section 3 C02"),
 "C03": dict(
  text="Proof: validator soundness (accept ==> clean, relative, not '.', not '..', not '../…', parent is an open directory, base name above the last child, stack discipline and representation invariant), hard-link source must have been seen, and in the receive loop an entry is forwarded only after both validators accepted it in the same iteration; DATA for an unregistered id is an error before any write; the disk writer inspects with Lstat only and picks the directory arm before the symlink arm. Round 3: a hard link whose source in the destination is a symlink is rejected before os.Link (F29, repaired: the metadata of the new name was applied through a link left in the destination when the link source had been filtered out); Lstat discipline stated per call site. Known: F37 (merge + metadata-only: a hard link whose source lies below a skipped directory is resolved through a symlink left in the destination).",
  note="Assumed: audited axioms-free uninterpreted filepath.Clean/Dir/Base/Join/IsAbs (only equalities of identical applications are used); lexical containment of Join(dest,p) for accepted p is an assumption; os effects; no concurrency.",
  design="DESIGN.md section 3 C03"),
 "C05": dict(
  text="Proof: exactly one notification per applied add/modify (non-content entries: after every filesystem effect of the call; content entries: from the asynchronous job after the content callback), delete notified after RemoveAll, nothing notified when a filter rejects, digest header = caller's hash of the stat as sent (never the filtered copy), digest finalised before the writer is closed and before the notification; delete suppression prefix always ends with the separator. Found and repaired: directory-over-directory metadata updates were not notified. Round 3: pending ancestors of a metadata-only receive are flushed when the selected entry is forwarded (each ancestor once); the digest is seeded with the stat as sent, the disk gets the filter's copy. No unreported temporary name stays behind (F38, repaired).",
  note="Assumed: hasher/notify callbacks, io.MultiWriter, os effects; 'once per path across the whole transfer' needs the merge induction (bounded stand-in); async completion order not modelled.",
  design="DESIGN.md section 3 C05"),
 "C06": dict(
  text="Proof of the sender's per-call protocol obligations for all inputs: one STAT per walk callback with the id counter advanced for every STAT, a regular file registered under its id before the STAT leaves, end marker after a complete walk, single-use ids (queue), one DATA per non-empty chunk and none for empty ones, terminator as the last packet of sendFile, lock bracket around every send, FIN echoed as the last message of a successful request loop, progress accumulated under its lock; the goroutine structure of a send as a sequential contract (exactly six goroutines: walker, four workers, request loop; exactly one final progress call with last == true, made after everything else; a failed walk is reported with an ERR packet). Round 3: one incremental match per path component in Open (matchesLikeWalk); composite views open the rest of the path in the mount named by the exact first component.",
  note="Not decided: request order/timing/concurrency, the worker pool, errgroup. Assumed: Stream/FS interface contracts (effects), io.CopyBuffer calls only Write/Read, sync.Pool holds *[]byte.",
  design="DESIGN.md section 3 C06"),
 "C07": dict(
  text="Proof of the receiver's per-call protocol obligations: loop invariant id counter == number of STATs received (ghost), an id is registered under the zero-based position of its STAT, pipe registered before the REQ is sent, each path requested at most once with its announced id, DATA routed to the registered pipe (Close iff empty payload) before the next receive, nil result only after io.EOF; the diff goroutine sends FIN only after the two-way diff and then the disk writer's wait both succeeded (ghost markers) and reports a failure with ERR; exactly two goroutines; the listing file is written only for a metadata-only transfer, after both goroutines ended, to dest/.fsutil-metadata after removing a stale entry. Round 3: all contracts of the root package and types are run; the destination walker is wired unless merging; stats compared field by field (compareStat) also under this property. Content is written into a new entry that replaces the old one by rename (an entry reopened in place would keep the tail of longer old content).",
  note="Not decided: interleavings of ids and STAT/DATA races, 'all content on disk before FIN' beyond sequential order. Assumed: Stream contract, channel semantics, trusted generated ResetVT/SizeVT.",
  design="DESIGN.md section 3 C07"),
 "C09": dict(
  text="Proof: ComparePath equals the separator-lowest first-difference order (strict order lemmas), the walk callback never reports the root and reports every other entry at most once (exactly once unless cancelled) under its root-relative path, the stat constructor records path/mode-without-socket-bit/mtime/size/owner/link target as given by lstat/readlink, the inode map makes the first name of an inode the file and every later name a link to that first name (map otherwise unchanged), device numbers via major/minor, sub-root prefixing of forwarded paths, and the sub-root sort reads the slice it sorts. Not decided: completeness/stability of the kernel listing and that filepath.WalkDir visits name-sorted (assumed). Round 3: xattr names are listed exactly once for the entry itself whatever its type; a re-rooted link's size follows its target (F24). The comparison of the sub-root sort is specified at the sort call (any comparator closure, also in a helper, must compute it); a callback's SkipDir is passed on unchanged by the walk.",
  note="Assumed: filepath.WalkDir pre-order over sorted ReadDir, lstat/readlink/xattr effects, filepath.Rel uninterpreted, sort.Slice permutes only its argument.",
  design="DESIGN.md section 3 C09"),
 "C10": dict(
  category="exploration",
  technique="bounded exhaustive enumeration of the real filtered walk against two reference filters (the equality depends on a dependency's regexp matcher and cannot be stated as a contract); plus contract-based proof of the walk's own bookkeeping",
  text="Whether a pattern matches is decided by moby/patternmatcher (regexp); no contract within reach can state it, so the central equality is decided by a bounded stand-in, labelled bounded: the real filterFS.Walk over 3 on-disk trees x every include/exclude list of the stated bound from a 26-pattern pool is compared with the naive reference of the statement and with an unpruned incremental reference (pruning unobservable, order, no duplicates). Proved for all inputs in addition (reported separately, never mixed into the counts): the visited-directory stack only holds separator-terminated prefixes, nothing is emitted for skipped entries, the map function is consulted before any emission, the pruning prefix tests compare separator-terminated strings, patternWithoutTrailingGlob. A callback's SkipDir verdict (the map function's 'drop the rest of this directory') reaches the underlying walk unchanged, for files and directories alike.",
  note="Known finding (dependency): the walk equals the incremental reference everywhere but differs from the naive one for lists like [a/b, !a]. Bounded: small trees, short pattern lists.",
  design="DESIGN.md section 3 C10"),
 "C11": dict(
  text="Proof: filterFS.Open decides visibility through the same incremental matcher entry point as Walk (found by the contract, repaired), an open failure yields only the terminator (sendFile), the hard-link re-canonicalisation forwards a link whose source was not seen as a plain file and records it as representative, later members name a recorded representative, Send installs the filter; the receiver's link validator accepts exactly links to earlier non-links. Walk/Open agreement over pattern lists is additionally checked by a bounded stand-in (not counted as proved). Round 3: every entry that goes through the hard-link bookkeeping is remembered under its own path; include patterns reach the matcher in the caller's order followed by the followed locations. Known: F22 (Open ignores the map function), F28 (map function excluding a directory but keeping its children: stream not parent-closed).",
  note="Assumed: matcher results uninterpreted; FS interface contracts; parent-closure of filtered streams rests on the C10 stand-in.",
  design="DESIGN.md section 3 C11"),
 "C12": dict(
  text="Proof (all inputs, all iterations): ComparePath is proved equal to the first-difference path order with the separator lowest (three postconditions + termination + index safety + no overflow), the order lemmas (irreflexive, asymmetric, transitive) are discharged over the spec and totality follows as a corollary of the verified, terminating ComparePath; per call of the validator both directions are proved: accept implies lexically contained + directory open on the stack + base name above the last child, and conversely such a path is accepted (the stack of open directories is proved strictly ascending, so the binary search finds exactly the parent entry), plus the stack discipline and representation invariant. That the stack is the right summary of the whole accepted history (the statement's 'parent accepted earlier') is a whole-sequence argument; it is additionally exercised by a bounded stand-in, labelled so in the evidence. Round 3: mode predicates of StatInfo/types.Stat are checked under this property too.",
  note="Assumes: govc's SSA->SMT translation; string extensionality axiom; uninterpreted filepath.Clean/Dir/Base/Join/IsAbs with three audited axioms on clean relative paths (p == Join(Dir,Base), p inside Dir(p), non-empty), bytewise string order; sort.Search contract (derived from its loop invariant); os.FileInfo methods pure.",
  design="DESIGN.md section 3 C12"),
 "C13": dict(
  text="Proof of the per-entry copy decisions for all stats and option values: device/fifo/socket nodes keep permission and exact type bits and the device number (bit-vector; the block->char defect was found and repaired), owner before mode before times with no-follow variants, chmod never on a symlink, requested symbolic mode = Set.Apply(source mode) and octal mode mapping incl. setuid/setgid/sticky (bit-vector), source atime/mtime otherwise, metadata before xattrs, symlinks copied via Readlink+Symlink, first name of an inode is the file and later names link to it, one notification per non-directory with the destination path, MkdirAll: existing directories untouched, created ones owner-then-time. Not decided: whole-tree fidelity (composition over ReadDir recursion and the kernel). Round 3: the owner the chowner answers is applied whenever it answers one; every listed xattr is attempted (F23, repaired: a tolerated failure dropped the attributes listed after it); options set exactly their field. Known: F34 (created target of a directory-contents copy gets no source metadata).",
  note="Assumed: os/unix/sysx effect contracts, mode.Set.Apply uninterpreted, Chowner callback, io.CopyBuffer; copyFileContent termination not claimed; slices.Reverse and patternmatcher.New by assumed contract.",
  design="DESIGN.md section 3 C13"),
 "C14": dict(
  text="Proof of the no-follow discipline per function: source and target are inspected with Lstat only (Stat only for directories already validated as parents and for the root-resolved destination), owner/time/xattr calls are the no-follow variants, chmod is skipped for symlinks, a non-directory target is removed (no-follow) or reported, pending parents are validated before an always-replace removal, destination names are root-clamped, every path handed to the copier derives from RootPath/rootPath. Two genuine escapes were found this way and repaired. The statement 'nothing outside the root' then rests on the assumed contract of continuity/fs.RootPath and kernel path resolution. Round 3: known finding F32 (a remembered hard-link source path resolved through a symlink that a later wildcard match created: destination entry linked to a file outside both roots).",
  note="Assumed: fs.RootPath returns a path inside root without symlink components (dependency), kernel path resolution for no-follow calls, no concurrent mutation.",
  design="DESIGN.md section 3 C14"),
 "C15": dict(
  text="Proof of the overlay decisions: destination selection rows of prepareTargetDir (with the root-clamped source name), trailing-separator handling in Copy (ensure_dst), copyDirectoryOnly (absent->Mkdir, dir->kept, other->error and nothing touched), ensureEmptyFileTarget (absent->nothing, dir->error untouched, other->Remove), removeTargetIfNeeded truth table, order parents->replace->empty target->create. Not decided: idempotence of a whole copy and wildcard union (whole-tree statements). Round 3: the rows of prepareTargetDir rewritten from the statement (F26, repaired: a directory copied onto an existing file aimed below it and always-replace could not win); a remembered link source equal to the target is copied (F33, repaired); wildcard base walked literally, every entry offered to the pattern.",
  note="Assumed: os effect contracts; uninterpreted filepath.Join/Base/Dir/Split/Clean; filepath.Walk invokes only its callback.",
  design="DESIGN.md section 3 C15"),
 "C16": dict(
  text="Proof of the selection bookkeeping: include = matchesInclude && !matchesExclude (root always), nothing is created for an unselected non-directory, a directory is created eagerly only if selected itself, pending ancestors are created exactly when a selected descendant arrives, each from its own source directory's mode/owner/xattrs, the ancestor stack is restored on every return path. Equality with the reference filter (which depends on the regexp matcher of moby/patternmatcher) is not decidable by contracts here and is left to a bounded stand-in. Round 3: both pattern lists are evaluated for every entry below the root, also for one the include patterns reject (the matchers are incremental); pattern options append in order.",
  note="Assumed: matcher results uninterpreted; os effects.",
  design="DESIGN.md section 3 C16"),
 "C17": dict(
  text="Proof of the per-entry header construction of the tar export for all stats: member name in slash form with a trailing slash for directories, uid/gid/device numbers/link name taken from the view's stat, link members (symlink and hard link) with size 0 and the right type flag, the payload opened after the header and only for non-empty regular non-link members, the archive closed last after a complete walk; the stat constructor (mkstat/setUnixOpt) contracts are part of the check. Not decided: that archive/tar produces a well-formed archive that extracts to the view (dependency semantics, assumed). Round 3: known finding F30 (the stat, and with it the first name of a hard-link group, is fixed before the map function is asked: a tar export links to a member that is not in the archive).",
  note="Assumed: archive/tar FileInfoHeader/Writer contracts, FS interface, xattr PAX records not tracked (map iteration).",
  design="DESIGN.md section 3 C17"),
 "C18": dict(
  text="Proof: dedupePaths returns a list in which no element lies inside another whenever its input is strictly ascending in path order (loop invariants + proved lemmas inside_less, contiguity, inside_hasprefix over the spec), a root entry collapses the list; the comparator FollowLinks sorts with is the protocol path order (found bytewise, repaired), and FollowLinks establishes that precondition: the keys collected from the resolved set are pairwise distinct (ghost visited set of the map range), sort.Slice with a comparator proved to be a strict weak order yields an ascending permutation, distinct + total order gives strictly ascending, so FollowLinks' result is ascending and prefix-free for every tree; the resolver's termination measure is a contract: a link path is added to the finite resolved set as a NEW element before any recursive call and an already resolved path returns at once, the set only grows. End-to-end closure/termination over link graphs is a bounded stand-in (not counted as proved) with two known findings (lexical '..' after a link; over-eager cycle guard). Round 3: every directory entry is offered to a wildcard and every match resolved on its own; dedupePaths is an order-preserving subsequence; pruning flags computed with every pattern character incl. the escape. Known: F7, F8, F31 (followed locations used as unescaped patterns; middle wildcards not followed). Every requested path goes through the component-wise resolver; requests are clamped to the root like link targets (F40, repaired; reported by the stand-in).",
  note="Assumed: sort.Slice returns a permutation ordered by a less function that is a strict weak order (the strict-weak-order conditions are proof obligations); a map range yields each key at most once; FS.Walk contract (invokes its callback); filepath functions uninterpreted.",
  design="DESIGN.md section 3 C18"),
 "C19": dict(
  text="Proof: buffer.alloc hands out the next n bytes of the concatenation view (region directly behind the last one or a fresh chunk at the end; earlier chunks keep position, backing array and length; index/slice safety; no overflow); in the receive loop every non-listing-name STAT is framed as LE32(size)+record of exactly that size, the listing's own name is skipped but still counted in the id sequence (found and repaired), ids are registered only for selected files; each record is exactly SizeVT bytes (encoder proved against the size specification); the pending unselected directories form a chain of direct parents (so only ancestors are replayed); the listing is written chunk by chunk in order to dest/.fsutil-metadata after both goroutines ended and a stale entry was removed. Round 3: known finding F27 (a source directory, or the target of a hard link, named like the listing file fails the transfer). Loop invariant: every announced entry got its record after it arrived, or is named exactly like the listing file.",
  note="Assumed: record bytes are the protobuf encoding of the stat (content of varints/tags not decided); selector callback.",
  design="DESIGN.md section 3 C19"),
 "C20": dict(
  text="Proof with exact bit-vector integers and loop invariants re-inferred on every run (Houdini): the hand-optimised decoders (*Packet).UnmarshalVT and (*Stat).UnmarshalVT never index, slice or allocate out of range for any byte string and any prior message (all 40+ loops), assign slice fields only their old or a fresh backing array (never the input buffer), the exported Unmarshal uses the copying decoder; protoStream.SendMsg writes one frame of 4+Size() bytes with a big-endian prefix (the message type must implement the marshaling interface - found missing, repaired), RecvMsg reads exactly one frame into a buffer of exactly the declared length, leaves the message untouched for an empty frame and fails only when reading or decoding fails. Encoder side: SizeVT of Stat and Packet proved equal to size specification functions (xattrs as a ghost sum over the map range), MarshalToSizedBufferVT of both proved to stay inside a buffer of that size and to report exactly that size, so SendMsg always writes exactly one frame of 4 + size bytes and MarshalTo cannot fail for a Packet. Not decided: that the bytes are the protobuf encoding (varint content, tag numbers), Unmarshal(Marshal(x)) == x, equality with the reflection-based protobuf runtime (out of reach, stated). Round 3: allocation bounds as obligations - RecvMsg allocates nothing sized by the unread length prefix (F25, repaired: 4 bytes reserved up to 4 GiB), Stat.UnmarshalVT nothing larger than the input. Header and payload are read from the stream itself (no read-ahead wrapper that would swallow the next frame).",
  note="Assumed: protohelpers.Skip results unconstrained (callers re-check), SizeOfVarint in 1..10 and EncodeVarint's offset arithmetic (audited), dispatch of the framing layer's interface calls to (*Packet).Size/MarshalTo, Packet.Reset trusted (generated), io.ReadFull/Writer contracts, sync.Pool holds *[]byte.",
  design="DESIGN.md section 3 C20"),
}

NOT_APPLICABLE = {
 "C04": "liveness/termination of both ends under faults and schedules: a concurrent-program property (channels, errgroup, select); per-function sequential contracts cannot express 'both calls return' — see DESIGN.md C04",
 "C08": "quantified over interleavings and data races; the VC generator has no thread semantics and contract-based sequential verification cannot decide any of its three clauses — see DESIGN.md C08",
}

NOT_YET = "check not built yet in this round (see DESIGN.md build order); not claimed"

ALL = ["C%02d" % i for i in range(1, 21)]

def main():
    hook_commits = subprocess.run(["git", "-C", "/repo", "log", "--format=%H %s"], capture_output=True, text=True).stdout.splitlines()
    hooks = [l.split()[0] for l in hook_commits if " verif:" in l or "verif hook" in l]
    checks = []
    for pid in ALL:
        if pid not in CLAIMED:
            continue
        c = CLAIMED[pid]
        checks.append({
            "property_id": pid,
            "quick_cmd": "./check %s quick" % pid,
            "thorough_cmd": "./check %s thorough" % pid,
            "evidence_file": "/verif/evidence/%s.json" % pid,
            "replay_cmd_template": "./check --replay {path}",
            "engine": "govc",
            "level_claimed": {"category": c.get("category", "proof"), "text": c["text"], "design_ref": c["design"]},
            "level_note": c["note"],
            "technique": c.get("technique", "contract-based deductive verification: weakest-precondition style VCs generated from go/ssa of the real functions against //@ contracts, discharged by z3/cvc5"),
        })
    na = []
    for pid in ALL:
        if pid in CLAIMED:
            continue
        na.append({"property_id": pid, "reason": NOT_APPLICABLE.get(pid, NOT_YET)})
    m = {
        "version": 1,
        "setup_cmd": "./setup.sh",
        "hooks": {
            "guard": "verif",
            "enable": "go build tag 'verif' (-tags=verif): makes the comment-only contract files /repo/**/contracts_verif.go visible; govc loads the packages with this tag",
            "baseline_off_cmd": "cd /repo && GOFLAGS=-mod=mod GOPROXY=off GOSUMDB=off GOTOOLCHAIN=local go test -vet=off -count=1 -timeout 25m ./...",
            "source_commits": hooks,
            "add_only": True,
        },
        "engines": [{
            "name": "govc", "path": "/verif/govc", "serves_properties": sorted(CLAIMED.keys()),
            "kind_free_text": "self-written verification-condition generator over go/ssa (x/tools v0.29.0) for Go functions under //@ contracts (requires/ensures/loop invariants/decreases/modifies/effects/ghost state/lemmas); obligations discharged by racing z3 4.8.12, z3 5.1.0 and cvc5 1.0.3; sat models replayed on the real code with go test -overlay",
        }],
        "checks": checks,
        "not_applicable": na,
        "notes": "Known findings are listed in /verif/known_findings.json. Bounded stand-ins are reported under coverage.bounded_standins and never counted in obligations/discharged.",
    }
    json.dump(m, open("/verif/MANIFEST.json", "w"), indent=1)
    print("MANIFEST.json written:", len(checks), "checks,", len(na), "not claimed")

main()
