package fsutil

// Bounded stand-in for C10 (filtered walk == reference filter) and C11 (walk
// and Open agree). Runs the REAL filterFS over small on-disk trees for every
// include/exclude list drawn from a pattern pool and compares with two
// references computed on the full listing:
//   R_naive: fresh matcher, MatchesOrParentMatches on every entry, plus ancestors (the statement)
//   R_incr : MatchesUsingParentResults chained along the ancestors, no pruning
// Labelled bounded; never counted as proved.

import (
	"context"
	"encoding/json"
	"fmt"
	gofs "io/fs"
	"os"
	"path/filepath"
	"sort"
	"strings"
	"testing"

	"github.com/moby/patternmatcher"
)

type standinTree struct {
	name  string
	dirs  []string
	files []string
}

var standinTrees = []standinTree{
	{"t1", []string{"a", "a/b", "a-b", "ab"}, []string{"a/b/c", "a/x", "a-b/y", "ab/z", "b", "c.d"}},
	{"t2", []string{"a", "a/ab", "b", "b/a"}, []string{"a/ab/b", "a/c.d", "b/a/a", "b/b", "a-b"}},
	{"t3", []string{"ab", "ab/a", "ab/a/b"}, []string{"ab/a/b/c.d", "ab/b", "a", "b"}},
}

var standinPool = []string{"a", "ab", "a-b", "b", "c.d", "a/b", "a/b/c", "b/a", "*", "a*", "?b", "**", "**/b", "a/**", "a/*", "*/b", "[ab]", "a/b/**", "**/c.d", "a/*/**", "*/*/**", "ab/*/*",
	"!a", "!a/b", "!ab", "!**/b", "!a*", "!a/b/c", "!b"}

func standinListing(root string) []string {
	var out []string
	filepath.WalkDir(root, func(p string, d gofs.DirEntry, err error) error {
		rel, _ := filepath.Rel(root, p)
		if rel != "." {
			out = append(out, rel)
		}
		return nil
	})
	sort.Slice(out, func(i, j int) bool { return ComparePath(out[i], out[j]) < 0 })
	return out
}

func standinAncestors(p string) []string {
	var out []string
	for d := filepath.Dir(p); d != "." && d != "/"; d = filepath.Dir(d) {
		out = append(out, d)
	}
	return out
}

func standinIncr(pm *patternmatcher.PatternMatcher, p string) bool {
	var info patternmatcher.MatchInfo
	var m bool
	parts := strings.Split(p, "/")
	for i := range parts {
		m, info, _ = pm.MatchesUsingParentResults(strings.Join(parts[:i+1], "/"), info)
	}
	return m
}

func standinRef(listing []string, inc, exc []string, incr bool) map[string]bool {
	var im, em *patternmatcher.PatternMatcher
	if len(inc) > 0 {
		im, _ = patternmatcher.New(inc)
	}
	if len(exc) > 0 {
		em, _ = patternmatcher.New(exc)
	}
	kept := map[string]bool{}
	for _, p := range listing {
		ok := true
		if im != nil {
			if incr {
				ok = standinIncr(im, p)
			} else {
				ok, _ = im.MatchesOrParentMatches(p)
			}
		}
		if ok && em != nil {
			var x bool
			if incr {
				x = standinIncr(em, p)
			} else {
				x, _ = em.MatchesOrParentMatches(p)
			}
			if x {
				ok = false
			}
		}
		if ok {
			kept[p] = true
			for _, a := range standinAncestors(p) {
				kept[a] = true
			}
		}
	}
	return kept
}

func standinKey(m map[string]bool) string {
	var ks []string
	for k := range m {
		ks = append(ks, k)
	}
	sort.Strings(ks)
	return strings.Join(ks, ",")
}

func TestGovcStandinFilter(t *testing.T) {
	out := os.Getenv("GOVC_STANDIN_OUT")
	thorough := os.Getenv("GOVC_STANDIN_TIER") == "thorough"
	var lists [][]string
	lists = append(lists, nil)
	for _, p := range standinPool {
		lists = append(lists, []string{p})
	}
	for _, p := range standinPool {
		for _, q := range standinPool {
			lists = append(lists, []string{p, q})
		}
	}
	type res struct {
		Evaluations     int      `json:"evaluations"`
		Distinct        int      `json:"distinct_nontrivial"`
		WalkNeIncr      int      `json:"walk_differs_from_incremental_reference"`
		WalkNeNaive     int      `json:"walk_differs_from_naive_reference"`
		KnownClass      int      `json:"in_known_class_incr_ne_naive"`
		OpenDisagree    int      `json:"open_disagrees_with_walk"`
		OrderViolations int      `json:"order_or_duplicate_violations"`
		FollowHandover  int      `json:"follow_path_handover_changes_selection"`
		Samples         []string `json:"samples"`
		Failures        []string `json:"failures"`
	}
	var r res
	seen := map[string]bool{}
	for _, tr := range standinTrees {
		root := t.TempDir()
		for _, d := range tr.dirs {
			os.MkdirAll(filepath.Join(root, d), 0755)
		}
		for _, f := range tr.files {
			os.WriteFile(filepath.Join(root, f), []byte("data:"+f), 0644)
		}
		listing := standinListing(root)
		isFile := map[string]bool{}
		for _, f := range tr.files {
			isFile[f] = true
		}
		base, err := NewFS(root)
		if err != nil {
			t.Fatal(err)
		}
		for ii, inc := range lists {
			for ei, exc := range lists {
				// quick: lists with at most two patterns in total; thorough: up to 2+1 / 1+2
				tot := len(inc) + len(exc)
				if tot == 0 || tot > 3 || (!thorough && tot > 2) || (len(inc) == 2 && len(exc) == 2) {
					continue
				}
				_ = ii
				_ = ei
				view, err := NewFilterFS(base, &FilterOpt{IncludePatterns: inc, ExcludePatterns: exc})
				if err != nil {
					continue
				}
				r.Evaluations++
				got := map[string]bool{}
				var order []string
				view.Walk(context.Background(), "", func(p string, e gofs.DirEntry, err error) error {
					if err != nil {
						return err
					}
					if got[p] {
						r.OrderViolations++
					}
					got[p] = true
					order = append(order, p)
					return nil
				})
				for i := 1; i < len(order); i++ {
					if ComparePath(order[i-1], order[i]) >= 0 {
						r.OrderViolations++
					}
				}
				ri := standinRef(listing, inc, exc, true)
				rn := standinRef(listing, inc, exc, false)
				gk, ik, nk := standinKey(got), standinKey(ri), standinKey(rn)
				desc := fmt.Sprintf("%s inc=%v exc=%v", tr.name, inc, exc)
				if gk != "" && gk != standinKey(map[string]bool{}) && !seen[tr.name+gk] {
					seen[tr.name+gk] = true
					r.Distinct++
				}
				if gk != ik {
					r.WalkNeIncr++
					if len(r.Failures) < 10 {
						r.Failures = append(r.Failures, "walk!=R_incr: "+desc+" walk=["+gk+"] ref=["+ik+"]")
					}
				}
				if gk != nk {
					r.WalkNeNaive++
					if ik != nk {
						r.KnownClass++
					}
				}
				for _, p := range listing {
					if !isFile[p] {
						continue
					}
					rc, err := view.Open(p)
					if err == nil {
						rc.Close()
					}
					if (err == nil) != got[p] {
						r.OpenDisagree++
						if len(r.Failures) < 10 {
							r.Failures = append(r.Failures, fmt.Sprintf("open/walk disagree: %s file=%s walk=%v openErr=%v", desc, p, got[p], err))
						}
					}
				}
				if len(r.Samples) < 5 && r.Evaluations%997 == 1 {
					r.Samples = append(r.Samples, desc+" -> ["+gk+"]")
				}
			}
		}
	}
	// The hand-over of follow-paths: with a non-nil (here: empty) list of follow-paths NewFilterFS
	// merges the followed locations into the caller's include patterns and removes nested entries.
	// That step must not change what the caller's patterns select (later patterns override earlier
	// ones; only an entry below the one kept just before it is redundant).
	extra := [][]string{{"a", "!a/b", "a/b/c"}, {"a", "!a/b", "a/b"}, {"d1", "!d1/f1", "d1/f1"}, {"*", "!*/f1", "d1/f1"}}
	for _, tr := range standinTrees {
		root := t.TempDir()
		for _, d := range tr.dirs {
			os.MkdirAll(filepath.Join(root, d), 0755)
		}
		for _, f := range tr.files {
			os.WriteFile(filepath.Join(root, f), []byte("data:"+f), 0644)
		}
		base, err := NewFS(root)
		if err != nil {
			t.Fatal(err)
		}
		walkKey := func(opt *FilterOpt) (string, bool) {
			view, err := NewFilterFS(base, opt)
			if err != nil {
				return "", false
			}
			got := map[string]bool{}
			view.Walk(context.Background(), "", func(p string, e gofs.DirEntry, err error) error {
				if err != nil {
					return err
				}
				got[p] = true
				return nil
			})
			return standinKey(got), true
		}
		var ls [][]string
		for _, l := range lists {
			if len(l) == 2 {
				ls = append(ls, l)
			}
		}
		ls = append(ls, extra...)
		for _, inc := range ls {
			a, ok1 := walkKey(&FilterOpt{IncludePatterns: inc})
			b, ok2 := walkKey(&FilterOpt{IncludePatterns: inc, FollowPaths: []string{}})
			if !ok1 || !ok2 {
				continue
			}
			r.Evaluations++
			if a != b {
				r.FollowHandover++
				if len(r.Failures) < 10 {
					r.Failures = append(r.Failures, fmt.Sprintf("follow-path hand-over changes the selection: %s inc=%v plain=[%s] with-follow-paths=[%s]", tr.name, inc, a, b))
				}
			}
		}
	}
	if out != "" {
		b, _ := json.MarshalIndent(r, "", " ")
		os.WriteFile(out, b, 0644)
	}
	t.Logf("evaluations=%d distinct=%d walk!=incr=%d walk!=naive=%d (known class %d) open-disagree=%d order=%d", r.Evaluations, r.Distinct, r.WalkNeIncr, r.WalkNeNaive, r.KnownClass, r.OpenDisagree, r.OrderViolations)
}
