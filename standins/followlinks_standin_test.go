package fsutil

// Bounded stand-in for C18: the REAL FollowLinks over small on-disk trees with
// symlinks, for every request list of the bound, against an independent
// chroot-style reference resolver. Checks: terminates, result strictly
// ascending in path order and prefix-free, covers (an ancestor of) every
// symlink traversed and the final location, nil iff the root is reached.
// Labelled bounded; never counted as proved.

import (
	"encoding/json"
	"fmt"
	"os"
	"path/filepath"
	"strings"
	"testing"
	"time"
)

type flTree struct {
	links map[string]string // path -> target
}

var flTargets = []string{"d1", "/d1", "./d1/../d2", "../d2", "../../d2", "d1/l2", "/l1", "l1", ".", "/", "d2/g", "missing", "d1/l2/../g", "/d1/l2/g"}
var flRequests = [][]string{{"l1"}, {"d1/l2"}, {"l1/g"}, {"l1/l2"}, {"d1/l2/g"}, {"l1", "d1/l2"}, {"d2"}, {"d2/g", "l1"}, {"l*"}, {"d1/l?"}, {"missing/x"}, {"l1/../d2"}, {"../d2"}, {"../l1/g"}, {"../../d2/g", "l1"}}

type flRef struct {
	traversed       []string
	final           string
	loop            bool
	root            bool
	revisit         bool // a symlink path was traversed more than once (F8 class)
	dotdotAfterLink bool // ".." directly after a component that is a symlink (F7 class)
}

func flResolve(root, req string, seen map[string]int) flRef {
	var r flRef
	comps := strings.Split(filepath.Clean("/"+req), "/")[1:]
	cur := ""
	hops := 0
	prevWasLink := false
	for len(comps) > 0 {
		c := comps[0]
		comps = comps[1:]
		if c == "\x00" {
			// end of an expanded link target: the component just finished was a symlink
			prevWasLink = true
			continue
		}
		if c == "" || c == "." {
			continue
		}
		if c == ".." {
			if prevWasLink {
				r.dotdotAfterLink = true
			}
			if i := strings.LastIndex(cur, "/"); i >= 0 {
				cur = cur[:i]
			} else {
				cur = ""
			}
			prevWasLink = false
			continue
		}
		next := c
		if cur != "" {
			next = cur + "/" + c
		}
		fi, err := os.Lstat(filepath.Join(root, next))
		if err != nil {
			// not found: the rest is taken literally
			cur = next
			for i, x := range comps {
				if x == "\x00" && i+1 < len(comps) && comps[i+1] == ".." {
					r.dotdotAfterLink = true
				}
			}
			for _, x := range comps {
				if x != "" && x != "." && x != "\x00" {
					cur += "/" + x
				}
			}
			cur = strings.TrimPrefix(filepath.Clean("/"+cur), "/")
			comps = nil
			prevWasLink = false
			break
		}
		if fi.Mode()&os.ModeSymlink != 0 {
			hops++
			seen[next]++
			if seen[next] > 1 {
				r.revisit = true
			}
			if hops > 40 {
				r.loop = true
				break
			}
			r.traversed = append(r.traversed, next)
			t, _ := os.Readlink(filepath.Join(root, next))
			// raw (uncleaned) components of the target, so that "x/.." after a link is seen
			tc := strings.Split(t, "/")
			if strings.HasPrefix(t, "/") {
				cur = ""
			}
			// look for ".." directly after a symlink component inside the target itself
			comps = append(append(append([]string{}, tc...), "\x00"), comps...)
			prevWasLink = false
			// the link's own name is replaced by its target: stay in cur
			continue
		}
		prevWasLink = false
		cur = next
	}
	r.final = cur
	if cur == "" && !r.loop {
		r.root = true
	}
	return r
}

func flCovered(out []string, p string) bool {
	if p == "" {
		return false
	}
	for _, o := range out {
		if o == p || strings.HasPrefix(p, o+"/") {
			return true
		}
	}
	return false
}

func TestGovcStandinFollowLinks(t *testing.T) {
	outFile := os.Getenv("GOVC_STANDIN_OUT")
	type res struct {
		Evaluations  int      `json:"evaluations"`
		Distinct     int      `json:"distinct_nontrivial"`
		Hangs        int      `json:"hangs"`
		NotSorted    int      `json:"not_sorted_or_nested"`
		NotCovered   int      `json:"closure_violations_outside_known_classes"`
		KnownF7      int      `json:"known_class_F7_dotdot_after_link"`
		KnownF8      int      `json:"known_class_F8_link_revisited"`
		RootMismatch int      `json:"root_mismatch"`
		Samples      []string `json:"samples"`
		Failures     []string `json:"failures"`
	}
	var r res
	seen := map[string]bool{}
	for i1, t1 := range flTargets {
		for i2, t2 := range flTargets {
			root := t.TempDir()
			os.MkdirAll(filepath.Join(root, "d1"), 0755)
			os.MkdirAll(filepath.Join(root, "d2"), 0755)
			os.WriteFile(filepath.Join(root, "d2", "g"), []byte("g"), 0644)
			os.WriteFile(filepath.Join(root, "g"), []byte("g"), 0644)
			os.Symlink(t1, filepath.Join(root, "l1"))
			os.Symlink(t2, filepath.Join(root, "d1", "l2"))
			fs, err := NewFS(root)
			if err != nil {
				t.Fatal(err)
			}
			for _, req := range flRequests {
				hasWild := false
				for _, q := range req {
					if strings.ContainsAny(q, "*?") {
						hasWild = true
					}
				}
				r.Evaluations++
				desc := fmt.Sprintf("l1->%s d1/l2->%s req=%v", t1, t2, req)
				type result struct {
					out []string
					err error
				}
				ch := make(chan result, 1)
				go func() {
					o, e := FollowLinks(fs, req)
					ch <- result{o, e}
				}()
				var got result
				select {
				case got = <-ch:
				case <-time.After(5 * time.Second):
					r.Hangs++
					r.Failures = append(r.Failures, "no termination within 5s: "+desc)
					continue
				}
				if got.err != nil {
					continue
				}
				key := strings.Join(got.out, ",")
				if key != "" && !seen[key+fmt.Sprint(i1, i2)] {
					seen[key+fmt.Sprint(i1, i2)] = true
					r.Distinct++
				}
				for i := range got.out {
					for j := range got.out {
						if i < j && ComparePath(got.out[i], got.out[j]) >= 0 {
							r.NotSorted++
						}
						if i != j && strings.HasPrefix(got.out[i], got.out[j]+"/") {
							r.NotSorted++
							if len(r.Failures) < 10 {
								r.Failures = append(r.Failures, "nested result: "+desc+" -> "+key)
							}
						}
					}
				}
				if hasWild {
					continue // the closure reference below handles literal requests only
				}
				anyRoot, known7, known8 := false, false, false
				var missing []string
				shared := map[string]int{} // the resolver's guard is shared by all requests of one call
				for _, q := range req {
					ref := flResolve(root, q, shared)
					if ref.root {
						anyRoot = true
					}
					known7 = known7 || ref.dotdotAfterLink
					known8 = known8 || ref.revisit || ref.loop
					if ref.loop {
						continue
					}
					for _, l := range ref.traversed {
						if !flCovered(got.out, l) {
							missing = append(missing, "link "+l)
						}
					}
					if !ref.root && !flCovered(got.out, ref.final) {
						missing = append(missing, "final "+ref.final)
					}
				}
				if anyRoot {
					if got.out != nil && !known7 && !known8 {
						r.RootMismatch++
						if len(r.Failures) < 10 {
							r.Failures = append(r.Failures, "root reached but result not nil: "+desc+" -> "+key)
						}
					}
					continue
				}
				if len(missing) > 0 {
					switch {
					case known7:
						r.KnownF7++
					case known8:
						r.KnownF8++
					default:
						r.NotCovered++
						if len(r.Failures) < 10 {
							r.Failures = append(r.Failures, "not covered "+strings.Join(missing, ",")+": "+desc+" -> ["+key+"]")
						}
					}
				}
				if len(r.Samples) < 5 && r.Evaluations%431 == 1 {
					r.Samples = append(r.Samples, desc+" -> ["+key+"]")
				}
			}
		}
	}
	// names that sort differently bytewise and in path order
	{
		root := t.TempDir()
		os.MkdirAll(filepath.Join(root, "a", "x"), 0755)
		os.WriteFile(filepath.Join(root, "a-b"), []byte("1"), 0644)
		os.WriteFile(filepath.Join(root, "a.c"), []byte("1"), 0644)
		os.Symlink("a/x", filepath.Join(root, "l"))
		fs, _ := NewFS(root)
		for _, req := range [][]string{{"a", "a-b", "a/x"}, {"a/x", "a.c", "a"}, {"l", "a", "a-b"}, {"a-b", "l"}} {
			r.Evaluations++
			out, err := FollowLinks(fs, req)
			if err != nil {
				continue
			}
			for i := range out {
				for j := range out {
					if i < j && ComparePath(out[i], out[j]) >= 0 {
						r.NotSorted++
					}
					if i != j && strings.HasPrefix(out[i], out[j]+"/") {
						r.NotSorted++
						r.Failures = append(r.Failures, fmt.Sprintf("nested result: req=%v -> %v", req, out))
					}
				}
			}
		}
	}
	if outFile != "" {
		b, _ := json.MarshalIndent(r, "", " ")
		os.WriteFile(outFile, b, 0644)
	}
	t.Logf("evaluations=%d distinct=%d hangs=%d notsorted=%d notcovered=%d knownF7=%d knownF8=%d rootmismatch=%d", r.Evaluations, r.Distinct, r.Hangs, r.NotSorted, r.NotCovered, r.KnownF7, r.KnownF8, r.RootMismatch)
	for _, f := range r.Failures {
		t.Log(f)
	}
}
