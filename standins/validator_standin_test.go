package fsutil

// Bounded stand-in for the completeness direction of C12 (and the reject-at-
// first-offender clause): the REAL Validator against an executable
// specification written from the statement, on every sequence up to a length
// bound over an alphabet of well- and ill-formed paths x {dir, file, delete}.
// Also checks that ComparePath equals component-wise comparison on all pairs.
// Labelled bounded; never counted as proved.

import (
	"encoding/json"
	"fmt"
	"os"
	"path/filepath"
	"strings"
	"testing"

	"github.com/tonistiigi/fsutil/types"
)

var vsAlphabet = []string{"", ".", "..", "../a", "a/..", "/a", "a//b", "a/", "a", "a-b", "a/b", "a b", "ab", "b", "a/b/c", "a.b"}

type vsStep struct {
	path string
	kind int // 0 dir, 1 file, 2 delete (of a dir stat), 3 delete with nil-ish file stat
}

// component-wise comparison, written independently of ComparePath
func vsLess(a, b string) bool {
	as, bs := strings.Split(a, "/"), strings.Split(b, "/")
	for i := 0; i < len(as) && i < len(bs); i++ {
		if as[i] != bs[i] {
			return as[i] < bs[i]
		}
	}
	return len(as) < len(bs)
}

// the statement as an executable specification: index of the first rejected element, or -1
func vsSpec(seq []vsStep) int {
	var last string
	haveLast := false
	dirs := map[string]bool{}
	for i, s := range seq {
		p := s.path
		if p != filepath.Clean(p) || filepath.IsAbs(p) || p == "." || p == ".." || strings.HasPrefix(p, "../") {
			return i
		}
		if haveLast && !vsLess(last, p) {
			return i
		}
		if d := filepath.Dir(p); d != "." && !dirs[d] {
			return i
		}
		last, haveLast = p, true
		if s.kind == 0 {
			dirs[p] = true
		}
	}
	return -1
}

func vsReal(seq []vsStep) int {
	v := &Validator{}
	for i, s := range seq {
		mode := uint32(0644)
		if s.kind == 0 || s.kind == 2 {
			mode = uint32(os.ModeDir | 0755)
		}
		k := ChangeKindAdd
		if s.kind >= 2 {
			k = ChangeKindDelete
		}
		if err := v.HandleChange(k, s.path, &StatInfo{&types.Stat{Path: s.path, Mode: mode}}, nil); err != nil {
			return i
		}
	}
	return -1
}

func TestGovcStandinValidator(t *testing.T) {
	out := os.Getenv("GOVC_STANDIN_OUT")
	maxLen := 3
	if os.Getenv("GOVC_STANDIN_TIER") == "thorough" {
		maxLen = 4
	}
	type res struct {
		Evaluations   int      `json:"evaluations"`
		Distinct      int      `json:"distinct_nontrivial"`
		Accepted      int      `json:"accepted_sequences"`
		Disagreements int      `json:"disagreements"`
		OrderPairs    int      `json:"order_pairs_checked"`
		OrderMismatch int      `json:"order_mismatches"`
		Samples       []string `json:"samples"`
		Failures      []string `json:"failures"`
	}
	var r res
	// ComparePath == component-wise comparison on every pair of the alphabet plus a few extras
	names := append(append([]string{}, vsAlphabet...), "a/b-c", "a-b/c", "a\x01", "a/\xff", "a\xff/b", "a b/c")
	for _, a := range names {
		for _, b := range names {
			r.OrderPairs++
			c := ComparePath(a, b)
			want := 0
			if vsLess(a, b) {
				want = -1
			} else if vsLess(b, a) {
				want = 1
			}
			if (c < 0) != (want < 0) || (c > 0) != (want > 0) {
				r.OrderMismatch++
				if len(r.Failures) < 10 {
					r.Failures = append(r.Failures, fmt.Sprintf("ComparePath(%q,%q)=%d, component-wise says %d", a, b, c, want))
				}
			}
		}
	}
	var seq []vsStep
	var rec func(depth int)
	rec = func(depth int) {
		if depth > 0 {
			r.Evaluations++
			want, got := vsSpec(seq), vsReal(seq)
			if want == -1 {
				r.Accepted++
				r.Distinct++
			}
			if want != got {
				r.Disagreements++
				if len(r.Failures) < 10 {
					r.Failures = append(r.Failures, fmt.Sprintf("sequence %v: specification rejects at %d, Validator at %d", seq, want, got))
				}
			}
			if len(r.Samples) < 5 && want == -1 && depth == maxLen && r.Accepted%37 == 1 {
				r.Samples = append(r.Samples, fmt.Sprintf("%v accepted", seq))
			}
			// no point extending a sequence both already reject
			if want != -1 && got != -1 {
				return
			}
		}
		if depth == maxLen {
			return
		}
		for _, p := range vsAlphabet {
			for k := 0; k < 4; k++ {
				seq = append(seq, vsStep{p, k})
				rec(depth + 1)
				seq = seq[:len(seq)-1]
			}
		}
	}
	rec(0)
	if out != "" {
		b, _ := json.MarshalIndent(r, "", " ")
		os.WriteFile(out, b, 0644)
	}
	t.Logf("evaluations=%d accepted=%d disagreements=%d orderpairs=%d ordermismatch=%d", r.Evaluations, r.Accepted, r.Disagreements, r.OrderPairs, r.OrderMismatch)
	for _, f := range r.Failures {
		t.Log(f)
	}
}
