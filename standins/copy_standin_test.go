package fs

// Bounded stand-in for the equality clause of C16: for every (tree, include
// list, exclude list) of the bound, the set of paths a REAL Copy writes equals
// the set the filtered fsutil.Walk of the same tree reports, into an empty and
// into a populated destination (pre-existing entries must survive). Labelled
// bounded; never counted as proved.

import (
	"context"
	"encoding/json"
	"fmt"
	gofs "io/fs"
	"os"
	"path/filepath"
	"sort"
	"strings"
	"testing"

	"github.com/tonistiigi/fsutil"
)

var csTrees = [][2][]string{
	{{"a", "a/b", "a-b", "ab"}, {"a/b/c", "a/x", "a-b/y", "ab/z", "b", "c.d"}},
	{{"a", "a/ab", "b", "b/a"}, {"a/ab/b", "a/c.d", "b/a/a", "b/b", "a-b"}},
}

var csPool = []string{"a", "ab", "b", "c.d", "a/b", "a/b/c", "b/a", "*", "a*", "?b", "**", "**/b", "a/**", "a/*", "*/b", "[ab]", "a/b/**", "**/c.d", "!a", "!a/b", "!**/b", "!a*", "!a/b/c"}

func csList(root string) []string {
	var out []string
	filepath.WalkDir(root, func(p string, d gofs.DirEntry, err error) error {
		rel, _ := filepath.Rel(root, p)
		if rel != "." {
			out = append(out, rel)
		}
		return nil
	})
	sort.Strings(out)
	return out
}

func TestGovcStandinCopy(t *testing.T) {
	outFile := os.Getenv("GOVC_STANDIN_OUT")
	thorough := os.Getenv("GOVC_STANDIN_TIER") == "thorough"
	var lists [][]string
	lists = append(lists, nil)
	for _, p := range csPool {
		lists = append(lists, []string{p})
	}
	if thorough {
		for _, p := range csPool {
			for _, q := range csPool {
				lists = append(lists, []string{p, q})
			}
		}
	}
	type res struct {
		Evaluations   int      `json:"evaluations"`
		Distinct      int      `json:"distinct_nontrivial"`
		Disagreements int      `json:"disagreements"`
		Clobbered     int      `json:"preexisting_entries_lost"`
		Samples       []string `json:"samples"`
		Failures      []string `json:"failures"`
	}
	var r res
	seen := map[string]bool{}
	for ti, tr := range csTrees {
		src := t.TempDir()
		for _, d := range tr[0] {
			os.MkdirAll(filepath.Join(src, d), 0755)
		}
		for _, f := range tr[1] {
			os.WriteFile(filepath.Join(src, f), []byte("data:"+f), 0644)
		}
		for _, inc := range lists {
			for _, exc := range lists {
				if len(inc)+len(exc) == 0 || len(inc)+len(exc) > 2 && !thorough || len(inc)+len(exc) > 3 {
					continue
				}
				var want []string
				err := fsutil.Walk(context.Background(), src, &fsutil.FilterOpt{IncludePatterns: inc, ExcludePatterns: exc}, func(p string, fi os.FileInfo, err error) error {
					if err != nil {
						return err
					}
					want = append(want, p)
					return nil
				})
				if err != nil {
					continue
				}
				sort.Strings(want)
				for _, populated := range []bool{false, true} {
					r.Evaluations++
					dst := t.TempDir()
					if populated {
						os.MkdirAll(filepath.Join(dst, "zz-old"), 0755)
						os.WriteFile(filepath.Join(dst, "zz-old", "keep"), []byte("k"), 0644)
					}
					err := Copy(context.Background(), src, ".", dst, "/", WithCopyInfo(CopyInfo{IncludePatterns: inc, ExcludePatterns: exc, CopyDirContents: true}))
					if err != nil {
						continue
					}
					var got []string
					kept := !populated
					for _, p := range csList(dst) {
						if strings.HasPrefix(p, "zz-old") {
							if p == "zz-old/keep" {
								kept = true
							}
							continue
						}
						got = append(got, p)
					}
					if !kept {
						r.Clobbered++
					}
					gk, wk := strings.Join(got, ","), strings.Join(want, ",")
					if gk != "" && !seen[fmt.Sprint(ti)+gk] {
						seen[fmt.Sprint(ti)+gk] = true
						r.Distinct++
					}
					if gk != wk {
						r.Disagreements++
						if len(r.Failures) < 10 {
							r.Failures = append(r.Failures, fmt.Sprintf("tree %d inc=%v exc=%v populated=%v: copied [%s] walk [%s]", ti, inc, exc, populated, gk, wk))
						}
					}
					if len(r.Samples) < 5 && r.Evaluations%211 == 1 {
						r.Samples = append(r.Samples, fmt.Sprintf("tree %d inc=%v exc=%v -> [%s]", ti, inc, exc, gk))
					}
					os.RemoveAll(dst)
				}
			}
		}
	}
	if outFile != "" {
		b, _ := json.MarshalIndent(r, "", " ")
		os.WriteFile(outFile, b, 0644)
	}
	t.Logf("evaluations=%d distinct=%d disagreements=%d clobbered=%d", r.Evaluations, r.Distinct, r.Disagreements, r.Clobbered)
	for _, f := range r.Failures {
		t.Log(f)
	}
}
