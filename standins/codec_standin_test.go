package types

// Bounded stand-in for the interoperability clause of C20: every enumerated Stat
// and Packet is encoded with the hand-optimised codec and decoded with the generic
// protobuf runtime, and the other way round; both must give an equal value and the
// computed sizes must agree with the produced bytes. Known class (recorded finding):
// a string field that is not valid UTF-8 (file names are arbitrary bytes) is
// accepted by the hand-optimised codec and rejected by the generic runtime.
// Labelled bounded; never counted as proved.

import (
	"encoding/json"
	"fmt"
	"os"
	"testing"
	"unicode/utf8"

	"google.golang.org/protobuf/proto"
)

func csStats() []*Stat {
	var out []*Stat
	paths := []string{"", "a", "dir/f", "\xff\xfe"}
	modes := []uint32{0, 0644, uint32(os.ModeDir | 0755), 0xffffffff}
	uids := []uint32{0, 1, 1 << 31}
	sizes := []int64{0, 1, -1, 1 << 40}
	mtimes := []int64{0, -1, 1 << 62}
	links := []string{"", "x", "\xc3\x28"}
	devs := []int64{0, 259}
	xattrs := []map[string][]byte{nil, {"user.a": []byte("v")}, {"k": nil, "user.b": []byte{0, 255}}, {"\xff": []byte("b")}}
	for _, p := range paths {
		for _, m := range modes {
			for _, u := range uids {
				for _, sz := range sizes {
					for _, mt := range mtimes {
						for _, l := range links {
							for _, d := range devs {
								for _, x := range xattrs {
									out = append(out, &Stat{Path: p, Mode: m, Uid: u, Gid: u / 2, Size: sz, ModTime: mt, Linkname: l, Devmajor: d, Devminor: d * 3, Xattrs: x})
								}
							}
						}
					}
				}
			}
		}
	}
	return out
}

func csValidUTF8(s *Stat) bool {
	if s == nil {
		return true
	}
	if !utf8.ValidString(s.Path) || !utf8.ValidString(s.Linkname) {
		return false
	}
	for k := range s.Xattrs {
		if !utf8.ValidString(k) {
			return false
		}
	}
	return true
}

func TestGovcStandinCodec(t *testing.T) {
	out := os.Getenv("GOVC_STANDIN_OUT")
	type res struct {
		Evaluations int      `json:"evaluations"`
		Distinct    int      `json:"distinct_nontrivial"`
		Mismatches  int      `json:"mismatches"`
		SizeErrors  int      `json:"size_errors"`
		KnownUTF8   int      `json:"known_class_invalid_utf8"`
		Samples     []string `json:"samples"`
		Failures    []string `json:"failures"`
	}
	var r res
	fail := func(f string, a ...interface{}) {
		if len(r.Failures) < 10 {
			r.Failures = append(r.Failures, fmt.Sprintf(f, a...))
		}
	}
	check := func(name string, vt interface {
		MarshalVT() ([]byte, error)
		SizeVT() int
	}, msg proto.Message, fresh func() (proto.Message, func([]byte) error, func(proto.Message) bool), valid bool) {
		r.Evaluations++
		b1, err := vt.MarshalVT()
		if err != nil {
			r.Mismatches++
			fail("%s: MarshalVT: %v", name, err)
			return
		}
		if len(b1) != vt.SizeVT() {
			r.SizeErrors++
			fail("%s: SizeVT %d but %d bytes", name, vt.SizeVT(), len(b1))
		}
		// hand-optimised -> generic
		m2, _, eq := fresh()
		if err := proto.Unmarshal(b1, m2); err != nil {
			if !valid {
				r.KnownUTF8++
				return
			}
			r.Mismatches++
			fail("%s: generic runtime rejects the hand-optimised encoding: %v", name, err)
			return
		}
		if !eq(m2) {
			r.Mismatches++
			fail("%s: hand-optimised -> generic gives a different value", name)
		}
		// generic -> hand-optimised
		b2, err := proto.Marshal(msg)
		if err != nil {
			if !valid {
				r.KnownUTF8++
				return
			}
			r.Mismatches++
			fail("%s: generic Marshal: %v", name, err)
			return
		}
		m3, unvt, eq3 := fresh()
		if err := unvt(b2); err != nil {
			r.Mismatches++
			fail("%s: hand-optimised decoder rejects the generic encoding: %v", name, err)
			return
		}
		if !eq3(m3) {
			r.Mismatches++
			fail("%s: generic -> hand-optimised gives a different value", name)
		}
		if len(b1) > 0 {
			r.Distinct++
		}
	}
	stats := csStats()
	for i, s := range stats {
		s := s
		check(fmt.Sprintf("stat#%d", i), s, s, func() (proto.Message, func([]byte) error, func(proto.Message) bool) {
			n := &Stat{}
			return n, n.UnmarshalVT, func(m proto.Message) bool { return s.EqualVT(m.(*Stat)) }
		}, csValidUTF8(s))
	}
	datas := [][]byte{nil, {}, []byte("x"), make([]byte, 40000)}
	for ty := 0; ty < 5; ty++ {
		for _, st := range []*Stat{nil, stats[1], stats[len(stats)/2], stats[len(stats)-1]} {
			for _, id := range []uint32{0, 1, 1 << 31} {
				for _, d := range datas {
					p := &Packet{Type: Packet_PacketType(ty), Stat: st, ID: id, Data: d}
					check(fmt.Sprintf("packet type=%d id=%d data=%d", ty, id, len(d)), p, p, func() (proto.Message, func([]byte) error, func(proto.Message) bool) {
						n := &Packet{}
						return n, n.UnmarshalVT, func(m proto.Message) bool { return p.EqualVT(m.(*Packet)) }
					}, csValidUTF8(st))
				}
			}
		}
	}
	r.Samples = []string{fmt.Sprintf("%d stats, %d packets", len(stats), r.Evaluations-len(stats))}
	if out != "" {
		b, _ := json.MarshalIndent(r, "", " ")
		os.WriteFile(out, b, 0644)
	}
	t.Logf("evaluations=%d mismatches=%d sizeerrors=%d known_utf8=%d", r.Evaluations, r.Mismatches, r.SizeErrors, r.KnownUTF8)
	for _, f := range r.Failures {
		t.Log(f)
	}
}
