package fsutil

// Bounded stand-in for the whole-merge clauses of C02/C05/C01: the REAL
// doubleWalkDiff driven by two in-memory walkers over every pair of parent-
// closed, strictly ascending entry lists of a small universe, compared with an
// executable specification of the diff (adds, modifies iff identity differs,
// deletes of top-most removed paths only). Labelled bounded.

import (
	"context"
	"encoding/json"
	"fmt"
	"os"
	"sort"
	"strings"
	"testing"

	"github.com/tonistiigi/fsutil/types"
)

type dsEntry struct {
	path  string
	dir   bool
	ident int
}

var dsUniverse = []string{"a", "a-b", "a/b", "a/b/c", "ab"}

// second universe: two sibling directories with a child each (back-to-back deletes of directories)
var dsUniverse2 = []string{"a", "a/x", "b", "b/y", "c"}

func dsStat(e dsEntry) *types.Stat {
	m := uint32(0644)
	if e.dir {
		m = uint32(os.ModeDir | 0755)
	}
	return &types.Stat{Path: e.path, Mode: m, Uid: uint32(e.ident), Size: int64(3), ModTime: 1000}
}

func dsLists() [][]dsEntry { return dsListsOf(dsUniverse) }

func dsListsOf(dsUniverse []string) [][]dsEntry {
	var out [][]dsEntry
	n := len(dsUniverse)
	for mask := 0; mask < 1<<n; mask++ {
		// which entries are present; kinds and identities enumerated below
		var present []string
		for i := 0; i < n; i++ {
			if mask&(1<<i) != 0 {
				present = append(present, dsUniverse[i])
			}
		}
		var rec func(i int, cur []dsEntry)
		rec = func(i int, cur []dsEntry) {
			if i == len(present) {
				// parent closure: every parent present as a directory
				dirs := map[string]bool{}
				for _, e := range cur {
					if e.dir {
						dirs[e.path] = true
					}
				}
				for _, e := range cur {
					if j := strings.LastIndex(e.path, "/"); j >= 0 && !dirs[e.path[:j]] {
						return
					}
				}
				l := append([]dsEntry(nil), cur...)
				sort.Slice(l, func(x, y int) bool { return ComparePath(l[x].path, l[y].path) < 0 })
				out = append(out, l)
				return
			}
			for _, d := range []bool{true, false} {
				for id := 0; id < 2; id++ {
					rec(i+1, append(cur, dsEntry{present[i], d, id}))
				}
			}
		}
		rec(0, nil)
	}
	return out
}

func dsWalker(l []dsEntry) walkerFn {
	return func(ctx context.Context, pathC chan<- *currentPath) error {
		for _, e := range l {
			select {
			case pathC <- &currentPath{path: e.path, stat: dsStat(e)}:
			case <-ctx.Done():
				return ctx.Err()
			}
		}
		return nil
	}
}

// the executable specification
func dsSpec(a, b []dsEntry, differ DiffType) []string {
	am, bm := map[string]dsEntry{}, map[string]dsEntry{}
	var paths []string
	for _, e := range a {
		am[e.path] = e
		paths = append(paths, e.path)
	}
	for _, e := range b {
		if _, ok := am[e.path]; !ok {
			paths = append(paths, e.path)
		}
		bm[e.path] = e
	}
	sort.Slice(paths, func(x, y int) bool { return ComparePath(paths[x], paths[y]) < 0 })
	var out []string
	removed := []string{} // directories of A whose subtree is gone (deleted or replaced by a non-directory)
	under := func(p string) bool {
		for _, r := range removed {
			if strings.HasPrefix(p, r+"/") {
				return true
			}
		}
		return false
	}
	for _, p := range paths {
		ea, ina := am[p]
		eb, inb := bm[p]
		switch {
		case ina && !inb:
			if under(p) {
				continue
			}
			out = append(out, "delete "+p)
			if ea.dir {
				removed = append(removed, p)
			}
		case !ina && inb:
			out = append(out, "add "+p)
		default:
			same := differ != DiffNone && ea.dir == eb.dir && ea.ident == eb.ident
			if ea.dir && !eb.dir {
				removed = append(removed, p)
			}
			if !same {
				out = append(out, "modify "+p)
			}
		}
	}
	return out
}

func TestGovcStandinDiff(t *testing.T) {
	out := os.Getenv("GOVC_STANDIN_OUT")
	thorough := os.Getenv("GOVC_STANDIN_TIER") == "thorough"
	seed := 0
	fmt.Sscan(os.Getenv("VERIF_SEED"), &seed)
	lists := dsLists()
	lists2 := dsListsOf(dsUniverse2)
	type res struct {
		Lists         int      `json:"lists"`
		Evaluations   int      `json:"evaluations"`
		Distinct      int      `json:"distinct_nontrivial"`
		Disagreements int      `json:"disagreements"`
		Samples       []string `json:"samples"`
		Failures      []string `json:"failures"`
	}
	r := res{Lists: len(lists) + len(lists2)}
	seen := map[string]bool{}
	for pass, lists := range [][][]dsEntry{lists, lists2} {
		_ = pass
		for i, a := range lists {
			for j, b := range lists {
				// quick: a seeded 1/16 slice of the pairs; thorough: all
				if !thorough && (i*31+j*17+seed)%16 != 0 {
					continue
				}
				for _, differ := range []DiffType{DiffMetadata, DiffNone} {
					r.Evaluations++
					var got []string
					err := doubleWalkDiff(context.Background(), func(k ChangeKind, p string, fi os.FileInfo, err error) error {
						got = append(got, k.String()+" "+p)
						return nil
					}, dsWalker(a), dsWalker(b), nil, differ)
					if err != nil {
						t.Fatal(err)
					}
					want := dsSpec(a, b, differ)
					gk, wk := strings.Join(got, ","), strings.Join(want, ",")
					if gk != "" && !seen[gk] {
						seen[gk] = true
						r.Distinct++
					}
					if gk != wk {
						r.Disagreements++
						if len(r.Failures) < 10 {
							r.Failures = append(r.Failures, fmt.Sprintf("A=%v B=%v differ=%d: got [%s] want [%s]", a, b, differ, gk, wk))
						}
					}
					if len(r.Samples) < 5 && r.Evaluations%9973 == 1 {
						r.Samples = append(r.Samples, fmt.Sprintf("A=%v B=%v -> [%s]", a, b, gk))
					}
				}
			}
		}
	}
	if out != "" {
		b, _ := json.MarshalIndent(r, "", " ")
		os.WriteFile(out, b, 0644)
	}
	t.Logf("lists=%d evaluations=%d distinct=%d disagreements=%d", r.Lists, r.Evaluations, r.Distinct, r.Disagreements)
	for _, f := range r.Failures {
		t.Log(f)
	}
}
