package fsutil

// Audit of assumed contracts on pure standard-library / dependency functions
// (thorough tier): every `ensures` of an assumed pure extern that is executable
// is evaluated against the REAL function on enumerated inputs. A failure
// invalidates every proof that used the assumption and is reported as a broken
// check, not as a violation. Bounded; proves nothing about fsutil.

import (
	"bytes"
	"encoding/binary"
	"encoding/json"
	"fmt"
	"io"
	"os"
	"path/filepath"
	"sort"
	"strconv"
	"strings"
	"testing"

	"github.com/pkg/errors"
	"github.com/planetscale/vtprotobuf/protohelpers"
)

func auditStrings(maxLen int) []string {
	alpha := []byte{'/', '.', 'a', '-', '*', 0x01, 0xff}
	out := []string{""}
	prev := []string{""}
	for l := 1; l <= maxLen; l++ {
		var cur []string
		for _, p := range prev {
			for _, c := range alpha {
				cur = append(cur, p+string([]byte{c}))
			}
		}
		out = append(out, cur...)
		prev = cur
	}
	return out
}

func TestGovcAudit(t *testing.T) {
	out := os.Getenv("GOVC_STANDIN_OUT")
	n, bad := 0, []string{}
	fail := func(f string, a ...interface{}) {
		if len(bad) < 10 {
			bad = append(bad, fmt.Sprintf(f, a...))
		}
	}
	strs := auditStrings(4)
	for _, s := range strs {
		n++
		if filepath.FromSlash(s) != s || filepath.ToSlash(s) != s {
			fail("FromSlash/ToSlash not identity on %q", s)
		}
		if len(strings.Split(s, "/")) < 1 {
			fail("Split(%q) empty", s)
		}
		for _, k := range []int{1, 2, 3, -1} {
			r := strings.SplitN(s, "/", k)
			if len(r) < 1 || (k > 0 && len(r) > k) {
				fail("SplitN(%q,%d) has %d parts", s, k, len(r))
			}
		}
	}
	// round 3: SplitN(s, "/", 2) is (first component, rest), two parts iff there is a separator;
	// Split(s, "/") has one part more than there are separators; TrimSuffix/HasSuffix as assumed;
	// filepath.Match without pattern characters is string equality and never matches across "/"
	for _, s := range strs {
		n++
		r := strings.SplitN(s, "/", 2)
		i := strings.IndexByte(s, '/')
		if (len(r) == 2) != (i >= 0) {
			fail("SplitN(%q) parts %d", s, len(r))
		}
		if i >= 0 && (r[0] != s[:i] || r[1] != s[i+1:]) {
			fail("SplitN(%q) = %q", s, r)
		}
		if i < 0 && r[0] != s {
			fail("SplitN(%q) = %q", s, r)
		}
		if len(strings.Split(s, "/")) != strings.Count(s, "/")+1 {
			fail("Split(%q) count", s)
		}
		for _, suf := range []string{"/**", "/*", "/"} {
			tr := strings.TrimSuffix(s, suf)
			if strings.HasSuffix(s, suf) {
				if tr+suf != s {
					fail("TrimSuffix(%q,%q)", s, suf)
				}
			} else if tr != s {
				fail("TrimSuffix(%q,%q) changed a string without the suffix", s, suf)
			}
		}
		if ok, err := filepath.Match("a", s); err != nil || ok != (s == "a") {
			fail("Match(a,%q)", s)
		}
	}
	// io.CopyN into an empty bytes.Buffer: exactly n bytes or an error; Bytes() then has n bytes
	for _, have := range []int{0, 1, 5, 700, 70000} {
		for _, want := range []int{1, 5, 700, 70000} {
			n++
			var b bytes.Buffer
			w, err := io.CopyN(&b, bytes.NewReader(make([]byte, have)), int64(want))
			if err == nil && (int(w) != want || len(b.Bytes()) != want) {
				fail("CopyN(%d of %d): wrote %d, buffered %d", want, have, w, len(b.Bytes()))
			}
			if (err == nil) != (have >= want) {
				fail("CopyN(%d of %d): err %v", want, have, err)
			}
		}
	}
	// filepath.Walk calls its function first for the root it was given, literally
	{
		n++
		d, _ := os.MkdirTemp("", "govc-audit-[x]")
		os.WriteFile(filepath.Join(d, "f"), nil, 0644)
		first := ""
		filepath.Walk(d, func(p string, _ os.FileInfo, _ error) error {
			if first == "" {
				first = p
			}
			return nil
		})
		if first != d {
			fail("Walk(%q) started at %q", d, first)
		}
		os.RemoveAll(d)
	}
	// assumed facts about clean relative paths (axioms clean_join_dir_base, clean_inside_dir, clean_nonempty)
	for _, s := range auditStrings(5) {
		if s != filepath.Clean(s) {
			continue
		}
		n++
		if len(s) == 0 {
			fail("Clean fixpoint %q is empty", s)
		}
		if filepath.IsAbs(s) {
			continue
		}
		d := filepath.Dir(s)
		if d == "." {
			d = ""
		}
		if filepath.Join(d, filepath.Base(s)) != s {
			fail("Join(Dir,Base) != p for %q", s)
		}
		if s != "." && d != "" {
			if !(len(d) < len(s) && s[len(d)] == '/' && s[:len(d)] == d) {
				fail("%q is not inside its directory %q", s, d)
			}
		}
	}
	short := auditStrings(3)
	for _, s := range short {
		for _, p := range short {
			n++
			spec := len(p) <= len(s)
			if spec {
				for j := 0; j < len(p); j++ {
					if s[j] != p[j] {
						spec = false
					}
				}
			}
			if strings.HasPrefix(s, p) != spec {
				fail("HasPrefix(%q,%q)", s, p)
			}
			// concatenation axioms
			c := s + p
			if len(c) != len(s)+len(p) || c[:len(s)] != s || c[len(s):] != p {
				fail("concat axioms on %q %q", s, p)
			}
			// bytewise order is irreflexive
			if s < s {
				fail("irreflexive")
			}
		}
	}
	for _, i := range []int{0, 1, -1, 9, 10, 1 << 40, -(1 << 40), 1e9, 1999999999} {
		n++
		if len(strconv.Itoa(i)) < 1 {
			fail("Itoa(%d) empty", i)
		}
	}
	for sh := uint(0); sh < 64; sh++ {
		for _, d := range []uint64{0, 1} {
			n++
			x := uint64(1)<<sh - d
			if v := protohelpers.SizeOfVarint(x); v < 1 || v > 10 {
				fail("SizeOfVarint(%d)=%d", x, v)
			}
		}
	}
	// EncodeVarint(buf, off, v) fills the SizeOfVarint(v) bytes below off, returns off - SizeOfVarint(v),
	// touches nothing else and does not panic when there is room
	for sh := uint(0); sh < 64; sh++ {
		for _, d := range []uint64{0, 1} {
			n++
			x := uint64(1)<<sh - d
			sz := protohelpers.SizeOfVarint(x)
			buf := make([]byte, sz+3)
			for i := range buf {
				buf[i] = 0xEE
			}
			r := protohelpers.EncodeVarint(buf, sz+1, x)
			if r != 1 || buf[0] != 0xEE || buf[sz+1] != 0xEE || buf[sz+2] != 0xEE {
				fail("EncodeVarint(%d): returned %d, frame %v", x, r, buf)
			}
		}
	}
	// filepath.WalkDir visits a tree in the protocol's path order (assumed by the C09 contracts:
	// pre-order over name-sorted directories; the separator then sorts below every other byte)
	{
		root := t.TempDir()
		for _, d := range []string{"a", "a/b", "a-b", "a.b", "ab", "a/b/c", "a b", "A", "a\x01"} {
			os.MkdirAll(filepath.Join(root, d), 0755)
		}
		for _, f := range []string{"a/b/c/f", "a-b/x", "a/-", "a/b-c", "z", "a/b/c.d"} {
			os.WriteFile(filepath.Join(root, f), []byte("x"), 0644)
		}
		prev := ""
		filepath.WalkDir(root, func(p string, d os.DirEntry, err error) error {
			rel, _ := filepath.Rel(root, p)
			if rel == "." {
				return nil
			}
			n++
			if prev != "" && ComparePath(prev, rel) >= 0 {
				fail("WalkDir order: %q visited after %q", rel, prev)
			}
			prev = rel
			return nil
		})
	}
	e := errors.New("x")
	n += 6
	if errors.WithStack(nil) != nil || errors.WithStack(e) == nil || errors.Wrap(nil, "m") != nil || errors.Wrap(e, "m") == nil || errors.Wrapf(nil, "m") != nil || errors.Wrapf(e, "m") == nil || errors.Errorf("x") == nil || fmt.Errorf("x") == nil {
		fail("errors nil-ness")
	}
	for _, v := range []uint32{0, 1, 0x01020304, 0xffffffff, 0x80000000, 65536} {
		n++
		var b [4]byte
		binary.BigEndian.PutUint32(b[:], v)
		if b[0] != byte(v>>24) || b[1] != byte(v>>16) || b[2] != byte(v>>8) || b[3] != byte(v) || binary.BigEndian.Uint32(b[:]) != v {
			fail("BigEndian %x", v)
		}
		binary.LittleEndian.PutUint32(b[:], v)
		if b[3] != byte(v>>24) || b[2] != byte(v>>16) || b[1] != byte(v>>8) || b[0] != byte(v) {
			fail("LittleEndian %x", v)
		}
	}
	// sort.Search for arbitrary (also non-monotone) predicates over n <= 6
	for size := 0; size <= 6; size++ {
		for mask := 0; mask < 1<<size; mask++ {
			n++
			f := func(i int) bool { return mask&(1<<i) != 0 }
			r := sort.Search(size, f)
			if r < 0 || r > size || (r < size && !f(r)) || (r > 0 && f(r-1)) {
				fail("sort.Search size=%d mask=%b -> %d", size, mask, r)
			}
		}
	}
	if out != "" {
		b, _ := json.MarshalIndent(map[string]interface{}{"evaluations": n, "distinct_nontrivial": n, "failures": bad, "audit_failures": len(bad)}, "", " ")
		os.WriteFile(out, b, 0644)
	}
	for _, f := range bad {
		t.Error(f)
	}
}
