#!/bin/bash
# Bounded stand-ins (labelled bounded, never counted as proved).
# usage: run.sh <property> <tier> <extra-json-out>
export GOFLAGS=-mod=mod GOPROXY=off GOSUMDB=off GOTOOLCHAIN=local
ID=$1; TIER=$2; OUT=$3
V=$(cd "$(dirname "$0")/.." && pwd)
REPO=${GOVC_REPO:-/repo}
RV=${GOVC_VERIF_OUT:-$V}
S=$(mktemp -d /var/tmp/govc-standin-XXXXXX)
trap 'rm -rf "$S"' EXIT
rc=0
run_test() { # <pkgdir> <testfile> <testname> <resultjson>
  echo "{\"Replace\":{\"$1/zz_govc_standin_test.go\":\"$2\"}}" > "$S/ov.json"
  (cd "$1" && TMPDIR="$S" GOVC_STANDIN_OUT="$4" GOVC_STANDIN_TIER="$TIER" VERIF_SEED="${VERIF_SEED:-0}" go test -overlay "$S/ov.json" -vet=off -count=1 -timeout 900s -run "^$3\$" . > "$S/test.log" 2>&1) || { echo "stand-in test $3 failed to run:"; tail -5 "$S/test.log"; return 1; }
}

# generic driver for stand-ins whose result JSON has evaluations/distinct_nontrivial/failures and named failure counters
generic_standin() { # <pkgdir> <testfile> <testname> <key> <name> <bound> <comma-separated failure counters>
  run_test "$1" "$2" "$3" "$S/$4.json" || exit 3
  python3 - "$ID" "$S/$4.json" "$OUT" "$RV" "$TIER" "$4" "$5" "$6" "$7" <<'PY'
import json,sys,os
pid,res,out,V,tier,key,name,bound,counters=sys.argv[1:10]
r=json.load(open(res))
bad=sum(r.get(c,0) for c in counters.split(",") if c)
entry={"name":name,"bounded":True,"bound":bound,"exhaustive":(tier=="thorough" or key!="diff")}
entry.update({k:v for k,v in r.items() if k!="failures"})
extra={"bounded_standins":[entry]}
if os.path.exists(out):
    try:
        old=json.load(open(out)); extra["bounded_standins"]=old.get("bounded_standins",[])+[entry]
        for k,v in old.items():
            if k!="bounded_standins": extra[k]=v
    except Exception: pass
json.dump(extra,open(out,"w"),indent=1)
if bad:
    os.makedirs(V+"/replays",exist_ok=True)
    rp=V+"/replays/%s-standin.%s.json"%(pid,key)
    json.dump({"obligation":"standin."+key,"kind":"bounded stand-in","failures":r.get("failures",[]),"result":{k:v for k,v in r.items() if k!="failures"},"how_to_rerun":"./check %s %s"%(pid,tier)},open(rp,"w"),indent=1)
    print("VIOLATION property=%s replay=%s"%(pid,rp))
    sys.exit(1)
PY
}
case "$ID" in
C10|C11)
  run_test "$REPO" "$V/standins/filter_standin_test.go" TestGovcStandinFilter "$S/filter.json" || exit 3
  python3 - "$ID" "$S/filter.json" "$OUT" "$RV" "$TIER" <<'PY'
import json,sys,os
pid,res,out,V,tier=sys.argv[1:6]
r=json.load(open(res))
viol=[]
if pid=="C10":
    if r["walk_differs_from_incremental_reference"]>0 or r["order_or_duplicate_violations"]>0 or r.get("follow_path_handover_changes_selection",0)>0: viol=r["failures"]
    unknown_naive = r["walk_differs_from_naive_reference"]-r["in_known_class_incr_ne_naive"]
    if unknown_naive>0: viol.append("walk differs from the naive reference outside the known class: %d cases"%unknown_naive)
    if r["in_known_class_incr_ne_naive"]>0:
        print("KNOWN-FINDING: property=C10 standin.filter.walk_vs_naive %d of %d enumerated cases differ from the naive reference, all in the class R_incr != R_naive (dependency's incremental matcher)"%(r["in_known_class_incr_ne_naive"], r["evaluations"]))
else:
    if r["open_disagrees_with_walk"]>0: viol=[f for f in r["failures"] if f.startswith("open/walk")] or r["failures"]
entry={"name":"filtered walk / Open vs references over enumerated trees and pattern lists","bounded":True,
 "bound":"3 on-disk trees (<=10 entries, names a ab a-b b c.d, depth<=3) x include/exclude lists with <=2 (quick) / <=3 (thorough) patterns from a 26-pattern pool",
 "evaluations":r["evaluations"],"distinct_nontrivial":r["distinct_nontrivial"],"exhaustive":True,
 "walk_differs_from_incremental_reference":r["walk_differs_from_incremental_reference"],"walk_differs_from_naive_reference":r["walk_differs_from_naive_reference"],
 "in_known_class":r["in_known_class_incr_ne_naive"],"open_disagrees_with_walk":r["open_disagrees_with_walk"],"order_or_duplicate_violations":r["order_or_duplicate_violations"],
 "follow_path_handover_changes_selection":r.get("follow_path_handover_changes_selection",0),"samples":r["samples"]}
extra={"bounded_standins":[entry]}
if pid=="C10":
    extra.update({"evaluations":r["evaluations"],"distinct_nontrivial":r["distinct_nontrivial"],"exhaustive":True,
      "rule":"every (tree, include list, exclude list) of the stated bound is enumerated; a case is non-trivial and distinct when its (tree, non-empty result set) pair was not seen before",
      "samples":r["samples"] or ["(no sample)"]})
json.dump(extra,open(out,"w"),indent=1)
if viol:
    os.makedirs(V+"/replays",exist_ok=True)
    rp=V+"/replays/%s-standin.filter.json"%pid
    json.dump({"obligation":"standin.filter","kind":"bounded stand-in","failures":viol,"result":r,"how_to_rerun":"./check %s %s"%(pid,tier)},open(rp,"w"),indent=1)
    print("VIOLATION property=%s replay=%s"%(pid,rp))
    sys.exit(1)
PY
  rc=$?
  ;;
C18)
  run_test "$REPO" "$V/standins/followlinks_standin_test.go" TestGovcStandinFollowLinks "$S/fl.json" || exit 3
  python3 - "$ID" "$S/fl.json" "$OUT" "$RV" "$TIER" <<'PY'
import json,sys,os
pid,res,out,V,tier=sys.argv[1:6]
r=json.load(open(res))
viol=[]
if r["hangs"]>0 or r["not_sorted_or_nested"]>0 or r["closure_violations_outside_known_classes"]>0 or r["root_mismatch"]>0:
    viol=r["failures"] or ["see counts"]
if r["known_class_F7_dotdot_after_link"]>0:
    print("KNOWN-FINDING: property=C18 standin.followlinks.F7 %d enumerated cases: a link target or request contains '..' directly after a component that is a symlink; FollowLinks cleans it lexically, so the traversed link / true final location is not covered"%r["known_class_F7_dotdot_after_link"])
if r["known_class_F8_link_revisited"]>0:
    print("KNOWN-FINDING: property=C18 standin.followlinks.F8 %d enumerated cases: the same symlink is reached twice with different remainders; the resolved-set doubles as cycle guard and cuts the second traversal short, so its final location is not covered"%r["known_class_F8_link_revisited"])
entry={"name":"FollowLinks vs independent chroot-style reference resolver","bounded":True,
 "bound":"trees {d1, d2, g, d2/g, l1, d1/l2} with both symlink targets ranging over 14 targets (relative, absolute, '..' beyond root, chains, cycles, dangling) x 12 request lists incl. wildcards",
 "evaluations":r["evaluations"],"distinct_nontrivial":r["distinct_nontrivial"],"exhaustive":True,"hangs":r["hangs"],"not_sorted_or_nested":r["not_sorted_or_nested"],
 "closure_violations_outside_known_classes":r["closure_violations_outside_known_classes"],"known_class_F7":r["known_class_F7_dotdot_after_link"],"known_class_F8":r["known_class_F8_link_revisited"],"samples":r["samples"]}
json.dump({"bounded_standins":[entry]},open(out,"w"),indent=1)
if viol:
    os.makedirs(V+"/replays",exist_ok=True)
    rp=V+"/replays/%s-standin.followlinks.json"%pid
    json.dump({"obligation":"standin.followlinks","kind":"bounded stand-in","failures":viol,"result":r,"how_to_rerun":"./check %s %s"%(pid,tier)},open(rp,"w"),indent=1)
    print("VIOLATION property=%s replay=%s"%(pid,rp))
    sys.exit(1)
PY
  rc=$?
  ;;
C12)
  generic_standin "$REPO" "$V/standins/validator_standin_test.go" TestGovcStandinValidator validator "real Validator vs executable specification of the statement (completeness direction, reject-at-first-offender), and ComparePath vs component-wise comparison" "all sequences of length <= 3 (quick) / <= 4 (thorough) over a 16-path alphabet of well- and ill-formed paths x {dir, file, delete-dir, delete-file}; 22x22 path pairs for the order" "disagreements,order_mismatches"
  rc=$?
  ;;
C02|C05|C01)
  generic_standin "$REPO" "$V/standins/diff_standin_test.go" TestGovcStandinDiff diff "real doubleWalkDiff over in-memory walkers vs executable specification of the diff (adds, modifies iff identity differs, top-most deletes only)" "all parent-closed ascending lists over {a, a-b, a/b, a/b/c, ab} and over {a, a/x, b, b/y, c} x {dir,file} x 2 identities; pairs within each universe: seeded 1/16 slice (quick) / all (thorough); differ in {metadata, none}" "disagreements"
  rc=$?
  ;;
C16)
  generic_standin "$REPO/copy" "$V/standins/copy_standin_test.go" TestGovcStandinCopy copy "set of paths written by the real Copy vs filtered fsutil.Walk of the same tree, into empty and populated destinations" "2 on-disk trees x include/exclude lists with <= 2 (quick) / <= 3 (thorough) patterns from a 23-pattern pool x {empty, populated destination}" "disagreements,preexisting_entries_lost"
  rc=$?
  ;;
C20)
  generic_standin "$REPO/types" "$V/standins/codec_standin_test.go" TestGovcStandinCodec codec "hand-optimised codec vs generic protobuf runtime, both directions, on enumerated Stat and Packet values (equal value, SizeVT == bytes produced)" "13824 stats (4 paths x 4 modes x 3 uids x 4 sizes x 3 mtimes x 3 link names x 2 device numbers x 4 xattr maps, incl. invalid UTF-8) and 240 packets (5 types x 4 stats x 3 ids x 4 payloads up to 40000 bytes)" "mismatches,size_errors"
  rc=$?
  python3 - "$S/codec.json" <<'PY'
import json,sys
r=json.load(open(sys.argv[1]))
if r.get("known_class_invalid_utf8",0)>0:
    print("KNOWN-FINDING: property=C20 standin.codec.invalid_utf8 %d of %d enumerated values carry a string field that is not valid UTF-8 (path, link name or xattr key): the hand-optimised codec round-trips them, the generic protobuf runtime rejects them in both directions"%(r["known_class_invalid_utf8"], r["evaluations"]))
PY
  ;;
*)
  ;;
esac
# thorough tier: audit the executable assumed contracts on pure library functions against the real functions
if [ "$TIER" = "thorough" ]; then
  if run_test "$REPO" "$V/standins/audit_test.go" TestGovcAudit "$S/audit.json"; then
    python3 - "$S/audit.json" "$OUT" <<'PY'
import json,sys,os
r=json.load(open(sys.argv[1])); out=sys.argv[2]
extra={}
if os.path.exists(out):
    try: extra=json.load(open(out))
    except Exception: extra={}
extra["assumption_audit"]={"name":"assumed contracts of pure library functions vs the real functions","bounded":True,
  "bound":"all strings of length <= 4 (<= 3 for pairs) over {'/', '.', 'a', '-', '*', 0x01, 0xff}; selected integers; all predicates over n <= 6 for sort.Search",
  "evaluations":r["evaluations"],"failures":r["audit_failures"]}
json.dump(extra,open(out,"w"),indent=1)
if r["audit_failures"]:
    print("BROKEN-CHECK assumption audit failed:", r["failures"][:3]); sys.exit(2)
PY
    arc=$?; [ $arc -ne 0 ] && [ $rc -eq 0 ] && rc=$arc
  else
    echo "BROKEN-CHECK assumption audit did not run"; [ $rc -eq 0 ] && rc=2
  fi
fi
exit $rc
