#!/bin/sh
# Builds the verifier from files on disk only (offline).
set -e
export GOFLAGS=-mod=mod GOPROXY=off GOSUMDB=off GOTOOLCHAIN=local
cd "$(dirname "$0")/govc"
cp /repo/go.sum go.sum
mkdir -p ../bin
go build -o ../bin/govc .
echo "govc built"
